#!/bin/sh
# seedtest.sh <seed-name> [tier] [extra vcheck args] — applies /verif/seeded/<seed-name>/patch.diff to
# /repo, runs the property's check, and always restores /repo afterwards.
# Prints "SEED <name> tier=<t> rc=<rc> caught-by=<harnesses>".
seed="$1"; tier="${2:-quick}"; shift; [ $# -gt 0 ] && shift
dir=/verif/seeded/$seed
prop=${seed%%-*}
[ -f "$dir/patch.diff" ] || { echo "no such seed $seed"; exit 2; }
if [ -n "$(git -C /repo status --porcelain)" ]; then echo "/repo is dirty; refusing"; exit 2; fi
trap 'git -C /repo checkout -- . ; git -C /repo clean -fdq' EXIT INT TERM
git -C /repo apply "$dir/patch.diff" || exit 2
log=/tmp/seedtest_$seed.$tier.log
cd /verif && timeout 3600 ./vcheck "$prop" "$tier" -evidence /tmp/seedev_$seed.json "$@" > "$log" 2>&1; rc=$?
by=$(grep -E '^(VIOLATION|  harness=|harness .*ends=)' "$log" | grep -o 'VerifH_[A-Za-z0-9_]*' | sort -u | paste -sd, )
viol=$(grep -c '^VIOLATION' "$log")
echo "SEED $seed tier=$tier rc=$rc violations=$viol log=$log"
python3 /verif/tools/seedcollect.py "$seed" "$tier" "$rc" "$log"
grep -E 'ends=map\[[^]]*(violation|fail)[^]]*\]' "$log" | awk '{print "   caught-by: " $2}' 
