#!/bin/sh
# verify_seed.sh <worktree> <pkgdir>  — confirms a seeded change: builds, existing tests
# unchanged w.r.t. the unpatched tree, demo fails with the patch and passes without.
wt="$1"; pkg="$2"
cd "$wt" || exit 2
demo=$(grep -ho 'func Test[A-Za-z0-9_]*' seed/demo_test.go | sed 's/func //' | paste -sd'|')
rm -f "$pkg/zz_seed_demo_test.go"
go build ./... || { echo BUILD-FAIL; exit 1; }
go test -count=1 "./$pkg/" 2>&1 | grep -E '^(--- FAIL|FAIL|ok)' | sed 's/ (.*//; s/\t[0-9.]*s$//' | sort > /tmp/seed_suite_with.txt
cp seed/demo_test.go "$pkg/zz_seed_demo_test.go"
go test -count=1 -run "^($demo)\$" "./$pkg/" > /tmp/seed_with.txt 2>&1; with=$?
git apply -R seed/patch.diff || { echo UNAPPLY-FAIL; exit 1; }
go test -count=1 -run "^($demo)\$" "./$pkg/" > /tmp/seed_without.txt 2>&1; without=$?
rm -f "$pkg/zz_seed_demo_test.go"
go test -count=1 "./$pkg/" 2>&1 | grep -E '^(--- FAIL|FAIL|ok)' | sed 's/ (.*//; s/\t[0-9.]*s$//' | sort > /tmp/seed_suite_without.txt
git apply seed/patch.diff
echo "demo_with_patch_exit=$with demo_without_patch_exit=$without"
if diff -q /tmp/seed_suite_with.txt /tmp/seed_suite_without.txt >/dev/null; then echo "suite: same outcome with and without patch ($(grep -c . /tmp/seed_suite_with.txt) result lines)"; else echo "suite: DIFFERS"; diff /tmp/seed_suite_with.txt /tmp/seed_suite_without.txt | head; fi
