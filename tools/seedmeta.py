#!/usr/bin/env python3
"""Writes /verif/seeded/<seed>/meta.json from the table below plus the recorded check results
(tools/seed_results.json, written by tools/seedtest.sh runs collected with tools/seedcollect.py)."""
import json, os, sys
T = {
 "C19-a": ("cryptobyte/asn1.go readASN1: long-form length-octet count masked with 0x0f instead of 0x7f", "a first length octet 0x91..0x94, 0xa1.., .. 0xf1..0xf4 (bits 0x70 set, low nibble 1..4) followed by an otherwise minimal length: accepted as an alias of 0x81..0x84, so accepted bytes differ from the re-encoding", "cryptobyte"),
 "C21-a": ("cryptobyte/builder.go flushChild: 'length > 0xff' became 'length >= 0xff'", "an ASN.1 child whose content is exactly 255 bytes: emitted as 82 00 ff, which the reader rejects as non-minimal", "cryptobyte"),
 "C35-a": ("tls/common.go lruSessionCache.Put: MoveToFront dropped when an existing key is updated", "a full cache, an update of the oldest key, then an insert of a new key: the just-updated key is evicted", "tls"),
 "C09-a": ("x509/verify.go matchHostnames: TrimSuffix(\".\") became TrimRight(\".\") for host and pattern", "a host or pattern ending in two or more dots (\"example.com..\")", "x509"),
 "C30-a": ("tls/handshake_messages.go serverHelloMsg.marshal: extensionsPresent computed before the extended_master_secret / unknown-extension emitters", "a ServerHello whose only extensions are extended_master_secret and/or verbatim unknown extensions: the whole block is dropped", "tls"),
 "C25-a": ("tls/conn.go halfConn.encrypt: record[3] = byte(n) >> 8 instead of byte(n >> 8)", "a record body of 256 bytes or more under a MAC (stream/CBC) cipher suite", "tls"),
 "C26-a": ("tls/prf.go ekmFromMasterSecret: 'context != nil' became 'len(context) > 0' (both places)", "an exporter call with a non-nil, zero-length context (RFC 5705 still appends the two length bytes)", "tls"),
 "C31-a": ("tls/ticket.go decryptTicket: only the first len(hmacKey)=16 of the 32 MAC bytes are compared", "a ticket whose MAC differs only in its last 16 bytes", "tls"),
 "C24-a": ("tls/handshake_server.go processClientHello: downgrade sentinel condition 'maxVers >= VersionTLS12' became '>'", "a server with MaxVersion exactly TLS 1.2 negotiating TLS 1.1/1.0", "tls"),
 "C07-a": ("x509/verify.go isValid: 'MaxPathLen >= 0' became 'MaxPathLen > 0'", "a CA with pathLenConstraint 0 that has another CA between it and the leaf", "x509"),
 "C11-a": ("verifier/walk.go canAddToChain: early return for non-intermediate edges skips the root's own MaxPathLen check", "a root edge with path-length limit N reached through more than N intermediates (leaf <- intermediate <- root(pathlen 0))", "verifier"),
 "C16-a": ("ct/serialization.go serializeV1PrecertSCTSignatureInput: entry_type written as X509LogEntryType", "a precertificate log entry (x509 entries, STHs and serialisation are unaffected)", "ct"),
 "C14-a": ("x509/revocation/crl/crl.go CheckCRLForCert linear path: serial comparison by big.Int.Bytes() (absolute value)", "no cache, a CRL entry and a queried serial of equal magnitude and opposite sign", "x509/revocation/crl"),
 "C28-a": ("tls/tls_handshake.go serverHelloMsg.MakeLog: HelloRetryRequest branch logs m.serverShare.group instead of m.selectedGroup", "a TLS 1.3 HelloRetryRequest carrying a selected group (no server share)", "tls"),
 "C29-a": ("tls/handshake_extensions.go SupportedCurvesExtension.Marshal: curve i written at byte offset 6+i instead of 6+2i", "a fingerprint SupportedCurvesExtension with two or more curves", "tls"),
 "C03-a": ("dsa/dsa.go Verify: upper range check of s against P instead of Q", "a DSA signature (r, s + k*q) with k >= 1 and s + k*q < p", "dsa"),
 "C18-a": ("encoding/asn1/marshal.go lengthLength: 'for i > 255' became 'for i >= 255'", "an element whose content length is exactly 255 (or 65280..65535): marshalled with a superfluous leading zero length octet that strict Unmarshal rejects", "encoding/asn1"),
 "C23-a": ("rsa/pkcs1v15.go pkcs1v15ConstructEM: length check 'k < tLen+11' became 'k < tLen+10' (7 bytes of 0xff padding accepted)", "modulus byte length exactly tLen+10 (unhashed message of k-10 bytes; SHA-512 with a 737..744-bit modulus, ...)", "rsa"),
 "C12-a": ("verifier/verifier.go VerifyWithContext: parents of an expired certificate taken from ExpiredChains instead of ValidAtExpirationChains", "an expired certificate whose expired chains and valid-at-expiration chains have different second certificates", "verifier"),
 "C33-a": ("tls/tls_names.go hashToName: strconv.ParseInt(..., 10, 8) instead of (..., 10, 32)", "a SignatureAndHash whose hash byte is an unassigned code >= 128: \"unknown.128\" decodes to 127", "tls"),
 "C01-a": ("encoding/asn1/asn1.go parseBMPString: odd-length rejection only in strict mode", "AllowPermissiveParsing = true and a BMPString (tag 30) of odd content length: index out of range", "encoding/asn1"),
 "C02-a": ("x509/json.go purgeNameDuplicates: final sort made case-insensitive with the unstable sort.Slice over map-iteration order", "two collected names equal ignoring ASCII case but not byte-equal: their order (and the JSON) differs from call to call", "x509"),
 "C06-a": ("x509/x509.go parseCertificate: CT extensions removed in place inside an index loop that still advances after a deletion", "CT poison and SCT list extensions directly adjacent: the second stays in the TBS used for FingerprintNoCT", "x509"),
 "C08-a": ("x509/cert_pool.go AppendCertsFromPEM: 'continue' became 'break' on an unparseable CERTIFICATE block", "a PEM bundle with an unparseable CERTIFICATE block followed by good certificates", "x509"),
 "C10-a": ("verifier/graph.go AddCert: missingIssuerNode entry deleted as soon as any dangling edge is fixed up instead of when the set is empty", "two dangling edges under one issuer DN that belongs to two nodes with different keys, children inserted before issuers", "verifier"),
 "C13-a": ("x509/revocation/ocsp/ocsp.go ParseResponseForCert: Signature taken as BitString.Bytes instead of RightAlign()", "a response whose signature BIT STRING declares 1..7 unused bits", "x509/revocation/ocsp"),
 "C15-a": ("x509/revocation/mozilla/mozilla.go OneCRL.Check: break after the first subject match in the blocked-key scan", "two subject/pubKeyHash records with the same subject and different keys; certificate matches the second", "x509/revocation/mozilla"),
 "C20-a": ("encoding/asn1/asn1.go parseUTCTime: early return in permissive mode skips the 2050 century fix-up", "AllowPermissiveParsing = true and a UTCTime with YY in 50..68: decodes to 20YY instead of 19YY", "encoding/asn1"),
 "C22-a": ("encoding/asn1/marshal.go makeField: 'r >= utf8.RuneSelf ||' dropped from the PrintableString test", "an untyped string with a non-ASCII rune whose low byte is a PrintableString character and no disqualifying rune (\"тест\", \"中\")", "x509/pkix"),
 "C27-a": ("tls/auth.go verifyHandshakeSignature: RSA-PSS case lost its 'expected an RSA public key' else branch", "an RSA-PSS-labelled handshake signature checked against an ECDSA/Ed25519 certificate key: accepted without verification", "tls"),
 "C04-a": ("x509/x509.go parseCertificate: key-usage loop runs over 8 bits instead of 9", "a template whose KeyUsage includes KeyUsageDecipherOnly (bit 8, second byte of the BIT STRING)", "x509"),
 "C05-a": ("x509/x509.go CreateCertificateRequest: '|| len(template.IPAddresses) > 0' dropped from the SAN guard", "a CSR template whose only SANs are IP addresses", "x509"),
 "C02-b": ("x509/x509.go CheckSignatureFromKey, *AugmentedECDSA branch: the asn1.Unmarshal error is no longer returned", "an ECDSA parent and a child whose ECDSA signature value is not a well-formed DER (r, s) pair: nil *big.Int dereference", "x509"),
 "C06-b": ("x509/x509.go parseCertificate: self-signed pre-check compares Subject.String() and Issuer.String() instead of the raw DER names", "issuer and subject that render to the same string from different DER (PrintableString vs UTF8String), signed by the certificate's own key", "x509"),
 "C10-b": ("verifier/graph.go AddCert: the existing child edge set is looked up on the certificate's own node instead of the issuer node", "an issuer already in the graph that certifies the same (subject, key) twice, or a self-signed child cross-signed later", "verifier"),
 "C16-b": ("ct/serialization.go serializeV1STHSignatureInput: 'TreeSize < 0' became 'TreeSize <= 0'", "a signed tree head of the empty log (tree size 0)", "ct"),
 "C24-b": ("tls/handshake_server.go pickCipherSuite: deprioritizeAES applied to the client's list instead of the server's in the server-preference branch", "PreferServerCipherSuites, default suite list (Config.CipherSuites nil), TLS <= 1.2, client's first known suite not AES-GCM", "tls"),
 "C26-b": ("tls/key_schedule.go exportKeyingMaterial: Derive-Secret transcript is Hash(context) instead of Hash(\"\")", "a TLS 1.3 exporter call with a non-empty context", "tls"),
 "C30-b": ("tls/handshake_messages.go certificateRequestMsg.unmarshal: 'len(cas) < 2' became 'len(cas) <= 2'", "a CertificateRequest whose last certificate-authority name is empty", "tls"),
 "C32-b": ("tls/key_agreement.go ecdheKeyAgreement.processServerKeyExchange: the 'len(sig) < 2' check runs before the signature-and-hash bytes are stripped", "a TLS 1.2 ECDHE ServerKeyExchange that ends at or one byte after the signature-and-hash bytes: index out of range", "tls"),
 "C01-b": ("tls/handshake_messages.go certificateRequestMsg.unmarshal: the signature-algorithm list bound compares the remaining length with the entry count instead of the byte length", "a TLS 1.2 CertificateRequest whose signature-algorithm list length L satisfies L/2 <= remaining bytes < L: index out of range", "tls"),
 "C03-b": ("x509/x509.go CreateCertificate: the RSA-PSS signer options follow parent.SignatureAlgorithm instead of template.SignatureAlgorithm", "an RSA issuer whose own certificate and the template disagree on RSA-PSS vs PKCS #1 v1.5", "x509"),
 "C07-b": ("x509/verify.go checkChainForKeyUsage: the defensive copy of the requested-usage list was dropped (usages crossed out in place)", "two or more candidate chains where an earlier one fails the EKU check and a later one also lacks the usage", "x509"),
 "C09-b": ("x509/verify.go VerifyHostname: 'if c.hasSANExtension()' became 'if len(c.DNSNames) > 0'", "a certificate with a SAN extension that has no DNS names (IP/email only) and a CommonName matching the host", "x509"),
 "C12-b": ("verifier/verifier.go VerifyWithContext: the CRLSet check became an else-branch of the OneCRL check", "both a OneCRL and a CRLSet supplied, the OneCRL not listing the certificate and the CRLSet listing it", "verifier"),
 "C13-b": ("x509/revocation/ocsp/ocsp.go CreateResponse: responder name taken from issuer.RawSubject instead of responderCert.RawSubject", "a delegated responder whose subject differs from the issuer's", "x509/revocation/ocsp"),
 "C18-b": ("encoding/asn1/asn1.go parseUTCTime: 'ret.Year() >= 2050' became '> 2050'", "a time.Time in the year 1950 marshalled as UTCTime: decodes as 2050", "encoding/asn1"),
 "C19-b": ("cryptobyte/asn1.go checkASN1Integer: negative-padding test 'bytes[1]&0x80 == 0x80' became 'bytes[1] > 0x80'", "a negative INTEGER padded with 0xff whose second content octet is exactly 0x80 (02 02 ff 80)", "cryptobyte"),
 "C21-b": ("cryptobyte/asn1.go asn1Signed: 'length > 8' became 'length >= 8'", "a signed value needing exactly 8 content octets (|v| >= 2^55)", "cryptobyte"),
 "C25-b": ("tls/conn.go halfConn.decrypt: TLS 1.3 padding scan 'i >= 0' became 'i > 0'", "a TLS 1.3 record with zero content bytes (or an all-zero inner plaintext)", "tls"),
 "C28-b": ("tls/tls_handshake.go clientHelloMsg.MakeLog: session-ticket buffer sized from len(m.sessionId)", "a ClientHello offering a session ticket longer than the session id", "tls"),
 "C29-b": ("tls/handshake_client.go ClientFingerprintConfiguration.marshal: cipher-suite list length high byte computed with >> 8 instead of >> 7", "a fingerprint configuration with 128 or more cipher suites", "tls"),
 "C04-b": ("x509/x509.go buildExtensions: the AuthorityKeyId override guard looks for the SubjectKeyId OID in ExtraExtensions", "a template with AuthorityKeyId set and a SubjectKeyId (or AuthorityKeyId) override among ExtraExtensions", "x509"),
 "C05-b": ("x509/x509.go CreateRevocationList: 'continue' became 'break' when a user-supplied reasonCode extension is met while copying an entry's ExtraExtensions", "a revoked entry whose ExtraExtensions has a reasonCode extension that is not the last element", "x509"),
 "C08-b": ("x509/cert_pool.go Covers: new size fast path returns false when both pools have the same size ('<=' instead of '<')", "Covers on a pool of equal size holding the same certificates (p.Covers(p), empty pools)", "x509"),
 "C11-b": ("verifier/walk.go continueWalking: the 'current == nil' guard now runs before the root-edge check", "a walk starting at a trust anchor that is not self-signed and whose issuer is absent from the graph", "verifier"),
 "C14-b": ("x509/revocation/crl/crl.go CheckCRLForCert: the linear search no longer stops at the first matching entry", "no cache and a CRL listing the queried serial more than once with different revocation times", "x509/revocation/crl"),
 "C15-b": ("x509/revocation/google/google.go getHeader: 'len(c) < headerLen' became '<='", "a CRLSet consisting of exactly its header (no issuer records)", "x509/revocation/google"),
 "C20-b": ("encoding/asn1/asn1.go parseInt64: permissive mode strips leading zero octets without looking at the next octet's sign bit", "permissive mode and an INTEGER whose content starts 00 followed by an octet >= 0x80 (128..255, 32768..): decodes negative", "encoding/asn1"),
 "C22-b": ("x509/pkix/pkix.go FillFromRDNSequence: JurisdictionProvince appended to the JurisdictionLocality slice", "a name with both JurisdictionLocality and JurisdictionProvince, or two provinces", "x509/pkix"),
 "C23-b": ("rsa/rsa.go decryptOAEP: the key-size guard uses mgfHash.Size() instead of hash.Size()", "OAEP decryption with different label and MGF hashes and a key between the two size limits: wrongful refusal or slice panic", "rsa"),
 "C27-b": ("tls/handshake_client.go loadSession: the 'original handshake was not verified' guard tests len(session.serverCertificates) instead of len(session.verifiedChains)", "a verifying client sharing a session cache entry created by a handshake with InsecureSkipVerify", "tls"),
 "C31-b": ("tls/handshake_server.go checkForResumption: the suite is selected from the client's offer instead of the ticket's suite", "a ticket whose suite is not the first mutually supported suite of the client's offer", "tls"),
 "C33-b": ("json/rsa.go RSAPublicKey.MarshalJSON: length written as N.BitLen() instead of 8*len(modulus)", "an RSA modulus whose bit length is not a multiple of 8", "json"),
 "C35-b": ("tls/common.go lruSessionCache.Put: removal of a present key no longer removes its list element", "Put(key, nil) on a present key followed by insertions of new keys", "tls"),
 "C32-a": ("tls/conn.go readRecordOrCCS: 'len(data) != 1' became 'len(data) > 1' for change_cipher_spec", "a change_cipher_spec record with an empty body after the version is fixed: index out of range", "tls"),
}
res = {}
rp = '/verif/tools/seed_results.json'
if os.path.exists(rp):
    res = json.load(open(rp))
for seed, (change, needs, pkg) in sorted(T.items()):
    d = f'/verif/seeded/{seed}'
    if not os.path.isdir(d):
        print('missing', seed); continue
    m = {
        "seed": seed,
        "property": seed.split('-')[0],
        "change": change,
        "needs_to_manifest": needs,
        "demo": {"file": "demo_test.go", "copy_into": pkg},
        "produced_by": "fresh sub-agent given only the property text and a scratch worktree (its notes: agent_meta.txt)",
        "confirmed_by_me": [
            f"tools/verify_seed.sh <scratch worktree> {pkg}: go build ./... ok; go test ./{pkg}/ outcome identical with and without patch.diff; demo_test.go fails with the patch and passes without it",
        ],
        "check_runs": res.get(seed, []),
    }
    json.dump(m, open(d + '/meta.json', 'w'), indent=1)
    print('wrote', seed)
