#!/usr/bin/env python3
"""baseline_check.py [pkg patterns...] — runs the repo's own tests (guard off) and reports any
test listed as stable_pass in /root/.vp/BASELINE.json that does not pass now."""
import json, subprocess, sys
pats = sys.argv[1:] or ['./...']
base = json.load(open('/root/.vp/BASELINE.json'))
stable = set(base['stable_pass'])
p = subprocess.run(['go', 'test', '-mod=mod', '-json', '-vet=off', '-count=1', '-timeout', '25m'] + pats,
                   cwd='/repo', capture_output=True, text=True)
passed, pkgs = set(), set()
for line in p.stdout.splitlines():
    try:
        e = json.loads(line)
    except Exception:
        continue
    if 'Package' in e:
        pkgs.add(e['Package'])
    if e.get('Action') == 'pass' and e.get('Test'):
        passed.add(e['Package'] + '::' + e['Test'])
want = {t for t in stable if t.split('::')[0] in pkgs}
missing = sorted(want - passed)
print(f"packages={len(pkgs)} stable_in_scope={len(want)} passed_now={len(want & passed)} missing={len(missing)}")
for m in missing[:40]:
    print("  NOT PASSING:", m)
sys.exit(1 if missing else 0)
