#!/usr/bin/env python3
"""seedcollect.py <seed> <tier> <rc> <log> — records one seed check run in tools/seed_results.json."""
import json, re, sys, os, subprocess
seed, tier, rc, log = sys.argv[1], sys.argv[2], int(sys.argv[3]), sys.argv[4]
txt = open(log, errors='replace').read()
caught = sorted(set(re.findall(r'^harness (VerifH_\S+)\s.*ends=map\[[^\]]*violation:\d+', txt, re.M)))
msgs = sorted(set(m.strip()[:200] for m in re.findall(r'kind=\w+ (.*?) confirmed=', txt)))
wall = re.findall(r'wall=([\d.]+)s\s*$', txt, re.M)
rp = '/verif/tools/seed_results.json'
res = json.load(open(rp)) if os.path.exists(rp) else {}
head = subprocess.run(['git', '-C', '/verif', 'rev-parse', '--short', 'HEAD'], capture_output=True, text=True).stdout.strip()
entry = {"command": f"git -C /repo apply seeded/{seed}/patch.diff; ./vcheck {seed.split('-')[0]} {tier}; git -C /repo checkout -- .",
         "tier": tier, "exit": rc, "verdict": "caught" if rc == 1 and caught else ("missed" if rc == 0 else "inconclusive"),
         "violating_harnesses": caught, "failed_assertions": msgs, "wall_s": float(wall[-1]) if wall else None, "verif_commit": head}
runs = [r for r in res.get(seed, []) if r.get("tier") != tier]
runs.append(entry)
res[seed] = runs
json.dump(res, open(rp, 'w'), indent=1, sort_keys=True)
print(f"   recorded: {entry['verdict']} by {','.join(caught) or '-'}")
