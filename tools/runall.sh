#!/bin/sh
# tools/runall.sh [quick|thorough] — run every registered check, print exit codes.
# The quick tier writes the committed evidence files (/verif/evidence/<id>.json); a
# thorough run writes its evidence to /tmp so that it does not replace them.
cd /verif || exit 3
tier="${1:-quick}"
for p in $(python3 -c "import json;print(' '.join(c['property_id'] for c in json.load(open('MANIFEST.json'))['checks']))"); do
  s=$(date +%s)
  if [ "$tier" = quick ]; then
    timeout 5400 ./vcheck "$p" "$tier" > "/tmp/runall_${tier}_$p.log" 2>&1
  else
    timeout 5400 ./vcheck "$p" "$tier" -evidence "/tmp/ev_${tier}_$p.json" > "/tmp/runall_${tier}_$p.log" 2>&1
  fi
  rc=$?
  e=$(date +%s)
  echo "$p rc=$rc $(($e-$s))s $(grep -c '^VIOLATION' /tmp/runall_${tier}_$p.log) violations $(grep -c '^KNOWN-FINDING' /tmp/runall_${tier}_$p.log) known"
done
