#!/usr/bin/env python3
"""Regenerates /verif/MANIFEST.json from tools/claims.json (one entry per claimed property)
and tools/not_applicable.json. Validates against the schema."""
import json, os, sys
root = os.path.dirname(os.path.dirname(os.path.abspath(__file__)))
claims = json.load(open(os.path.join(root, 'tools/claims.json')))
na = json.load(open(os.path.join(root, 'tools/not_applicable.json')))
claimed = {c['id'] for c in claims}
listed = {n['property_id'] for n in na}
for line in open(os.path.join(root, 'properties.jsonl')):
    pid = json.loads(line)['id']
    if pid not in claimed and pid not in listed:
        na.append({"property_id": pid, "reason": "no check registered yet: harnesses for this property are designed (DESIGN.md §4) but have not run clean on the unchanged tree in this build session"})
checks = []
for c in claims:
    pid = c['id']
    checks.append({
        "property_id": pid,
        "quick_cmd": f"./vcheck {pid} quick",
        "thorough_cmd": f"./vcheck {pid} thorough",
        "evidence_file": f"/verif/evidence/{pid}.json",
        "replay_cmd_template": "bin/gosym replay {path}",
        "engine": "gosym",
        "level_claimed": {
            "category": "model_checking",
            "text": c['text'],
            "design_ref": c.get('design_ref', f"DESIGN.md §4 {pid}"),
        },
        "level_note": c['note'],
        "technique": c.get('technique', "bounded symbolic execution of the real code's go/ssa form (gosym) with SMT (z3) deciding every input-dependent branch and assertion; counterexamples replayed natively"),
    })
m = {
    "version": 1,
    "setup_cmd": "cd /verif/engine && GOFLAGS=-mod=mod GOPROXY=off GOTOOLCHAIN=local PATH=/opt/veriftools/go1.26.8/bin:$PATH go build -o /verif/bin/gosym .",
    "hooks": {
        "guard": "verif",
        "enable": "harness files (//go:build verif) and the verifrt runtime are injected into the real /repo packages through a build overlay (go/packages Overlay for the engine, `go test -tags verif -overlay` for native replay); /repo carries no hook commits",
        "baseline_off_cmd": "cd /repo && go test -vet=off -count=1 -timeout 25m ./...",
        "source_commits": [],
        "add_only": True,
    },
    "engines": [{
        "name": "gosym",
        "path": "/verif/engine",
        "serves_properties": [c['id'] for c in claims],
        "kind_free_text": "bounded symbolic executor for go/ssa emitting SMT-LIB2 to z3 over a pipe; generational concolic path exploration; native witness replay",
    }],
    "checks": checks,
    "not_applicable": na,
    "notes": "See DESIGN.md. Every check regenerates the SSA from /repo's working tree. Exit 3 = infrastructure problem (harness no longer compiles, unsupported construct, inconclusive solver answer), never a violation.",
}
json.dump(m, open(os.path.join(root, 'MANIFEST.json'), 'w'), indent=1)
try:
    import jsonschema
    jsonschema.validate(m, json.load(open('/root/.vp/MANIFEST.schema.json')))
    print("MANIFEST.json valid:", len(checks), "checks,", len(na), "not applicable")
except ImportError:
    print("jsonschema not available; written without validation")
