#!/usr/bin/env python3
"""Regenerates the seed table in DESIGN.md §11.5 from tools/seed_results.json and seeded/*/meta.json."""
import json, os, re
root = '/verif'
res = json.load(open(f'{root}/tools/seed_results.json'))
first = {  # verdict of the check as it stood when the seed arrived (before any strengthening)
 'C25-a': 'missed (predicted; payloads <= 18 bytes)', 'C31-a': 'inconclusive (found, then path explosion; run killed)',
 'C03-a': 'inconclusive (violation did not replay natively)', 'C06-a': 'missed', 'C08-a': 'missed', 'C13-a': 'missed',
 'C20-a': 'missed', 'C22-a': 'missed', 'C27-a': 'missed (caught by the C03 check only)',
 'C10-b': 'missed at the quick tier (thorough caught it)', 'C24-b': 'missed', 'C32-b': 'missed',
 'C07-b': 'missed', 'C12-b': 'missed', 'C13-b': 'missed', 'C29-b': 'missed',
 'C04-b': 'missed', 'C05-b': 'missed', 'C23-b': 'missed', 'C27-b': 'missed',
 'C02-c': 'missed', 'C24-c': 'missed', 'C25-c': 'missed', 'C28-c': 'missed', 'C30-c': 'missed', 'C01-c': 'missed', 'C03-c': 'missed',
 'C08-c': 'missed', 'C23-c': 'missed', 'C04-c': 'missed', 'C29-c': 'missed (still missed)', 'C12-c': 'missed (still missed)',
}
rows = []
for seed in sorted(os.listdir(f'{root}/seeded')):
    mp = f'{root}/seeded/{seed}/meta.json'
    if not os.path.exists(mp):
        continue
    m = json.load(open(mp))
    runs = res.get(seed, [])
    q = next((r for r in runs if r['tier'] == 'quick'), None)
    now = '-'
    if q:
        now = q['verdict']
        if q['violating_harnesses']:
            now += ': ' + ', '.join(h.replace('VerifH_', '') for h in q['violating_harnesses'])
    rows.append(f"| {seed} | {m['change'].replace('|', '/')} | {first.get(seed, 'caught')} | {now} |")
table = "| seed | change | first run | current quick check |\n|---|---|---|---|\n" + "\n".join(rows)
p = f'{root}/DESIGN.md'
s = open(p).read()
if 'SEEDTABLE' in s:
    s = s.replace('SEEDTABLE', '<!-- seedtable:begin -->\n' + table + '\n<!-- seedtable:end -->')
else:
    s = re.sub(r'<!-- seedtable:begin -->.*?<!-- seedtable:end -->', lambda _: '<!-- seedtable:begin -->\n' + table + '\n<!-- seedtable:end -->', s, flags=re.S)
open(p, 'w').write(s)
print(len(rows), 'rows')
