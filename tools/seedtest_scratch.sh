#!/bin/sh
# seedtest_scratch.sh <seed> [tier] — like seedtest.sh but applies the seed in the scratch
# worktree /tmp/wt/scratch (same commit as /repo) and points the engine at it with
# GOSYM_REPO, so it can run while /repo is in use. Development aid only: the recorded
# verdicts in seed_results.json come from seedtest.sh runs against /repo.
seed="$1"; tier="${2:-quick}"; shift; [ $# -gt 0 ] && shift
dir=/verif/seeded/$seed; prop=${seed%%-*}; wt=/tmp/wt/scratch
[ "$(git -C $wt rev-parse HEAD)" = "$(git -C /repo rev-parse HEAD)" ] || { echo "scratch is not at /repo HEAD"; exit 2; }
[ -z "$(git -C $wt status --porcelain)" ] || { echo "scratch dirty"; exit 2; }
trap 'git -C $wt checkout -- . ; git -C $wt clean -fdq' EXIT INT TERM
git -C $wt apply "$dir/patch.diff" || exit 2
log=/tmp/seedscratch_$seed.$tier.log
cd /verif && GOSYM_REPO=$wt timeout 3600 ./vcheck "$prop" "$tier" "$@" > "$log" 2>&1; rc=$?
echo "SEED(scratch) $seed tier=$tier rc=$rc $(grep -E 'ends=map\[[^]]*violation' "$log" | awk '{print $2}' | paste -sd,)"
