//go:build verif

package asn1

import (
	"errors"
	"time"

	vr "github.com/zmap/zcrypto/internal/verifrt"
)

// C20 for the two time types. The standard library's layout matcher is environment:
// time.Parse either fails or returns the instant the layout rules give for the
// two-digit year yy (69..99 -> 19yy, 00..68 -> 20yy, the documented rule), and
// Time.Format either reproduces the input or not — both arbitrary. What is checked
// is zcrypto's own logic around them: whatever strict mode accepts, permissive mode
// accepts with the same instant, and a UTCTime lands in 1950..2049 (RFC 5280
// §4.1.2.5.1). yy is case-split, so the calendar arithmetic is concrete per path.
func c20TimeBoth(general bool) {
	yy := 0
	if !general {
		yy = vr.Pick(vr.Int("yy", 0, 99))
	}
	layoutMatches, canonical := vr.Bool("layoutMatches"), vr.Bool("reserialisesIdentically")
	year := 2000 + yy
	if yy >= 69 {
		year = 1900 + yy
	}
	if general {
		year = []int{1950, 1999, 2049, 2050, 2068, 2069, 9999}[vr.Pick(vr.Int("year", 0, 6))]
	}
	parsed := time.Date(year, time.March, 4, 5, 6, 7, 0, time.UTC)
	vr.Stub("time.Parse", func(layout, value string) (time.Time, error) {
		if !layoutMatches {
			return time.Time{}, errors.New("model: value does not match layout")
		}
		return parsed, nil
	})
	vr.Stub("(time.Time).Format", func(t time.Time, layout string) string {
		if canonical {
			return "input"
		}
		return "something else"
	})
	run := func(permissive bool) (time.Time, error) {
		AllowPermissiveParsing = permissive
		defer func() { AllowPermissiveParsing = false }()
		if general {
			return parseGeneralizedTime([]byte("input"))
		}
		return parseUTCTime([]byte("input"))
	}
	ts, es := run(false)
	tp, ep := run(true)
	if es != nil {
		if ep == nil {
			vr.Cover("permissive-only")
		} else {
			vr.Cover("both-reject")
		}
		return
	}
	vr.Assert(ep == nil, "what strict mode accepts, permissive mode accepts")
	vr.Assert(tp.Equal(ts), "and decodes to the same instant")
	if !general {
		want := 2000 + yy
		if yy >= 50 {
			want = 1900 + yy
		}
		vr.Assert(ts.Year() == want && tp.Year() == want, "a UTCTime year is in 1950..2049")
	} else {
		vr.Assert(ts.Year() == year, "a GeneralizedTime keeps its four-digit year")
	}
	vr.Cover("strict-ok")
}

// verif: covers=strict-ok,permissive-only,both-reject maxsplit=120
func VerifH_C20_asn1_utctime() { c20TimeBoth(false) }

// verif: covers=strict-ok,permissive-only,both-reject maxsplit=120
func VerifH_C20_asn1_generalizedtime() { c20TimeBoth(true) }
