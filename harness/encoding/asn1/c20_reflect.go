//go:build verif

package asn1

import (
	"bytes"

	vr "github.com/zmap/zcrypto/internal/verifrt"
)

// C20 / C01 through Unmarshal itself (reflection-driven parseField) on arbitrary
// input bytes: a typed target with the common field kinds, and an interface{}
// target that takes whatever universal type the input announces.

type c20Target struct {
	I int
	S string `asn1:"optional"`
	B bool   `asn1:"optional"`
	O []byte `asn1:"optional"`
}

func c20Same(a, b *c20Target) bool {
	return a.I == b.I && a.S == b.S && a.B == b.B && bytes.Equal(a.O, b.O)
}

// verif: covers=strict-ok,permissive-only,both-reject
func VerifH_C20_unmarshal_struct_modes() {
	max := 8
	if vr.Tier() == 1 {
		max = 10
	}
	in := vr.Bytes("in", vr.Int("n", 0, max))
	var s, p c20Target
	AllowPermissiveParsing = false
	restS, errS := Unmarshal(in, &s)
	AllowPermissiveParsing = true
	restP, errP := Unmarshal(in, &p)
	AllowPermissiveParsing = false
	if errS == nil {
		vr.Assert(errP == nil, "what strict mode accepts, permissive mode accepts")
		vr.Assert(c20Same(&s, &p) && bytes.Equal(restS, restP), "with the same value and the same remainder")
		vr.Cover("strict-ok")
	} else if errP == nil {
		vr.Cover("permissive-only")
	} else {
		vr.Cover("both-reject")
	}
}

func c01Unmarshal(iface bool, max int) {
	AllowPermissiveParsing = vr.Bool("permissive")
	in := vr.Bytes("in", vr.Int("n", 0, max))
	var err error
	panicked := vr.MayPanic(func() {
		if iface {
			var v interface{}
			_, err = Unmarshal(in, &v)
		} else {
			var t c20Target
			_, err = Unmarshal(in, &t)
		}
	})
	AllowPermissiveParsing = false
	vr.Assert(!panicked, "Unmarshal of arbitrary bytes does not panic in either mode")
	if err == nil {
		vr.Cover("accepted")
	} else {
		vr.Cover("rejected")
	}
}

// verif: covers=accepted,rejected
func VerifH_C01_unmarshal_struct_total() {
	if vr.Tier() == 1 {
		c01Unmarshal(false, 9)
	} else {
		c01Unmarshal(false, 7)
	}
}

// An interface{} target takes whatever universal type the input announces (every
// string type including BMPString and T61String, times, OIDs, bit strings, nested
// sequences).
// verif: covers=accepted,rejected maxpaths_t=600000
func VerifH_C01_unmarshal_any_total() {
	if vr.Tier() == 1 {
		c01Unmarshal(true, 6)
	} else {
		c01Unmarshal(true, 4)
	}
}
