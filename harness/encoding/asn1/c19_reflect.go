//go:build verif

package asn1

import (
	"bytes"

	vr "github.com/zmap/zcrypto/internal/verifrt"
)

// C19 through Unmarshal/Marshal themselves: whatever strict Unmarshal accepts as an
// INTEGER, BOOLEAN, OBJECT IDENTIFIER or BIT STRING (header included) re-encodes to
// exactly the consumed bytes.
// verif: covers=accepted,rejected
func VerifH_C19_unmarshal_marshal_canonical() {
	max := 6
	if vr.Tier() == 1 {
		max = 8
	}
	in := vr.Bytes("in", vr.Int("n", 0, max))
	var rest, out []byte
	var err, merr error
	switch vr.Pick(vr.Int("target", 0, 3)) {
	case 0:
		var v int
		if rest, err = Unmarshal(in, &v); err == nil {
			out, merr = Marshal(v)
		}
	case 1:
		var v bool
		if rest, err = Unmarshal(in, &v); err == nil {
			out, merr = Marshal(v)
		}
	case 2:
		var v ObjectIdentifier
		if rest, err = Unmarshal(in, &v); err == nil {
			out, merr = Marshal(v)
		}
	case 3:
		var v BitString
		if rest, err = Unmarshal(in, &v); err == nil {
			out, merr = Marshal(v)
		}
	}
	if err != nil {
		vr.Cover("rejected")
		return
	}
	vr.Assert(merr == nil, "an accepted value marshals")
	vr.Assert(bytes.Equal(out, in[:len(in)-len(rest)]), "re-encoding reproduces exactly the consumed bytes")
	vr.Cover("accepted")
}
