//go:build verif

package asn1

import (
	"bytes"

	vr "github.com/zmap/zcrypto/internal/verifrt"
)

func hEncode(e encoder) []byte {
	out := make([]byte, e.Len())
	e.Encode(out)
	return out
}

// ---------- C19: strict decode -> encode reproduces the bytes ----------

// verif: covers=i64-accepted,i32-accepted,rejected
func VerifH_C19_asn1_integer() {
	AllowPermissiveParsing = false
	n := vr.Int("n", 0, 10)
	in := vr.Bytes("in", n)
	v, err := parseInt64(in)
	if err == nil {
		vr.Assert(bytes.Equal(hEncode(int64Encoder(v)), in), "int64: re-encoding reproduces contents")
		vr.Cover("i64-accepted")
	} else {
		vr.Cover("rejected")
	}
	v32, err := parseInt32(in)
	if err == nil {
		vr.Assert(bytes.Equal(hEncode(int64Encoder(v32)), in), "int32: re-encoding reproduces contents")
		vr.Cover("i32-accepted")
	}
}

// verif: covers=accepted,rejected
func VerifH_C19_asn1_header() {
	AllowPermissiveParsing = false
	max := 7
	if vr.Tier() == 1 {
		max = 9
	}
	n := vr.Int("n", 1, max)
	in := vr.Bytes("in", n)
	t, off, err := parseTagAndLength(in, 0)
	if err != nil {
		vr.Cover("rejected")
		return
	}
	vr.Assert(off >= 2 && off <= len(in), "offset within input")
	out := appendTagAndLength(nil, t)
	vr.Assert(bytes.Equal(out, in[:off]), "header: re-encoding reproduces consumed bytes")
	vr.Cover("accepted")
}

// verif: covers=accepted,rejected
func VerifH_C19_asn1_oid() {
	AllowPermissiveParsing = false
	max := 6
	if vr.Tier() == 1 {
		max = 8
	}
	n := vr.Int("n", 0, max)
	in := vr.Bytes("in", n)
	oid, err := parseObjectIdentifier(in)
	if err != nil {
		vr.Cover("rejected")
		return
	}
	e, err := makeObjectIdentifier(oid)
	vr.Assert(err == nil, "decoded OID is encodable")
	vr.Assert(bytes.Equal(hEncode(e), in), "OID: re-encoding reproduces contents")
	vr.Cover("accepted")
}

// verif: covers=bits-accepted,bool-accepted,rejected
func VerifH_C19_asn1_bitstring_bool() {
	AllowPermissiveParsing = false
	n := vr.Int("n", 0, 4)
	in := vr.Bytes("in", n)
	bs, err := parseBitString(in)
	if err == nil {
		vr.Assert(bytes.Equal(hEncode(bitStringEncoder(bs)), in), "BIT STRING: re-encoding reproduces contents")
		vr.Cover("bits-accepted")
	} else {
		vr.Cover("rejected")
	}
	b, err := parseBool(in)
	if err == nil {
		want := byte(0)
		if b {
			want = 0xff
		}
		vr.Assert(len(in) == 1 && in[0] == want, "BOOLEAN: only 00 and ff accepted")
		vr.Cover("bool-accepted")
	}
}

// ---------- C18: encode -> strict decode returns the value ----------

// verif: covers=done
func VerifH_C18_asn1_int64() {
	AllowPermissiveParsing = false
	v := int64(vr.U64("v"))
	enc := hEncode(int64Encoder(v))
	got, err := parseInt64(enc)
	vr.Assert(err == nil && got == v, "int64 round-trips")
	vr.Assert(len(enc) == int64Encoder(v).Len(), "Len equals bytes written")
	v32 := int32(v)
	enc = hEncode(int64Encoder(v32))
	got32, err := parseInt32(enc)
	vr.Assert(err == nil && got32 == v32, "int32 round-trips")
	vr.Cover("done")
}

// verif: covers=done
func VerifH_C18_asn1_header() {
	AllowPermissiveParsing = false
	t := tagAndLength{class: int(vr.U8("class") & 3), tag: int(vr.U32("tag") & 0x7fffffff), length: int(vr.U32("len") & 0x7fffffff), isCompound: vr.Bool("compound")}
	enc := appendTagAndLength(nil, t)
	trail := vr.Bytes("trail", vr.Int("tn", 0, 2))
	got, off, err := parseTagAndLength(append(enc, trail...), 0)
	vr.Assert(err == nil, "header parses")
	vr.Assert(got == t, "header round-trips")
	vr.Assert(off == len(enc), "exactly the header consumed")
	vr.Cover("done")
}

// verif: covers=valid,invalid
func VerifH_C18_asn1_oid() {
	AllowPermissiveParsing = false
	max := 4
	if vr.Tier() == 1 {
		max = 5
	}
	n := vr.Int("n", 0, max)
	oid := make([]int, n)
	for i := range oid {
		oid[i] = int(vr.U32("arc") & 0x7fffffff)
	}
	e, err := makeObjectIdentifier(oid)
	if err != nil {
		vr.Cover("invalid")
		return
	}
	// documented domain: the combined first sub-identifier fits in an int32
	vr.Assume(oid[0]*40+oid[1] <= 0x7fffffff)
	enc := hEncode(e)
	vr.Assert(len(enc) == e.Len(), "Len equals bytes written")
	got, err := parseObjectIdentifier(enc)
	vr.Assert(err == nil && ObjectIdentifier(oid).Equal(got), "OID round-trips")
	vr.Cover("valid")
}

// verif: covers=done
func VerifH_C18_asn1_bitstring() {
	AllowPermissiveParsing = false
	n := vr.Int("n", 0, 3)
	data := vr.Bytes("data", n)
	pad := 0
	if n > 0 {
		pad = vr.Int("pad", 0, 7)
		vr.Assume(data[n-1]&(1<<uint(pad)-1) == 0) // domain: unused bits are zero
	}
	bs := BitString{Bytes: data, BitLength: 8*n - pad}
	enc := hEncode(bitStringEncoder(bs))
	got, err := parseBitString(enc)
	vr.Assert(err == nil && got.BitLength == bs.BitLength && bytes.Equal(got.Bytes, bs.Bytes), "BIT STRING round-trips")
	for i := 0; i < bs.BitLength; i++ {
		vr.Assert(got.At(i) == int(data[i/8]>>(7-uint(i%8)))&1, "At returns the bit")
	}
	vr.Cover("done")
}

// verif: covers=printable,ia5,numeric
func VerifH_C18_asn1_strings() {
	AllowPermissiveParsing = false
	n := vr.Int("n", 0, 3)
	s := vr.String("s", n)
	if e, err := makePrintableString(s); err == nil {
		got, err := parsePrintableString(hEncode(e))
		vr.Assert(err == nil && got == s, "PrintableString round-trips")
		vr.Cover("printable")
	}
	if e, err := makeIA5String(s); err == nil {
		got, err := parseIA5String(hEncode(e))
		vr.Assert(err == nil && got == s, "IA5String round-trips")
		vr.Cover("ia5")
	}
	if e, err := makeNumericString(s); err == nil {
		got, err := parseNumericString(hEncode(e))
		vr.Assert(err == nil && got == s, "NumericString round-trips")
		vr.Cover("numeric")
	}
	got, err := parseT61String(hEncode(makeUTF8String(s)))
	vr.Assert(err == nil && got == s, "raw string bytes preserved")
}

// multiEncoder / taggedEncoder / setEncoder bookkeeping.
// verif: covers=done
func VerifH_C18_asn1_composite_encoders() {
	a := bytesEncoder(vr.Bytes("a", vr.Int("an", 0, 2)))
	b := bytesEncoder(vr.Bytes("b", vr.Int("bn", 0, 2)))
	c := int64Encoder(int64(int16(vr.U16("c"))))
	m := multiEncoder{a, c, b}
	enc := hEncode(m)
	want := append(append(append([]byte{}, a...), hEncode(c)...), b...)
	vr.Assert(bytes.Equal(enc, want), "multiEncoder writes its parts in order at Len offsets")
	t := &taggedEncoder{tag: bytesEncoder(appendTagAndLength(nil, tagAndLength{tag: 16, isCompound: true, length: m.Len()})), body: m}
	tenc := hEncode(t)
	vr.Assert(len(tenc) == 2+len(want) && bytes.Equal(tenc[2:], want) && int(tenc[1]) == len(want), "taggedEncoder = header then body")
	s := setEncoder{a, b, bytesEncoder(hEncode(c))}
	senc := hEncode(s)
	vr.Assert(len(senc) == s.Len(), "setEncoder Len equals bytes written")
	vr.Cover("done")
}

// setEncoder output is sorted (elements of equal length so the cut points are known).
// verif: covers=done
func VerifH_C18_asn1_set_sorted() {
	k := vr.Int("k", 0, 3)
	const w = 2
	var s setEncoder
	var elems [][]byte
	for i := 0; i < k; i++ {
		e := vr.Bytes("e", w)
		elems = append(elems, e)
		s = append(s, bytesEncoder(e))
	}
	enc := hEncode(s)
	vr.Assert(len(enc) == k*w, "all elements written")
	for i := 0; i+1 < k; i++ {
		vr.Assert(bytes.Compare(enc[i*w:(i+1)*w], enc[(i+1)*w:(i+2)*w]) <= 0, "ascending order")
	}
	// multiset preserved: every input element occurs at least as often in the output
	for _, e := range elems {
		cin, cout := 0, 0
		for _, f := range elems {
			if bytes.Equal(e, f) {
				cin++
			}
		}
		for i := 0; i < k; i++ {
			if bytes.Equal(e, enc[i*w:(i+1)*w]) {
				cout++
			}
		}
		vr.Assert(cin == cout, "set encoding is a permutation of its elements")
	}
	vr.Cover("done")
}

// ---------- C20: strict success implies identical permissive success ----------

func hBoth(f func() (uint64, []byte, int, error)) {
	AllowPermissiveParsing = false
	v1, b1, o1, e1 := f()
	AllowPermissiveParsing = true
	v2, b2, o2, e2 := f()
	AllowPermissiveParsing = false
	if e1 == nil {
		vr.Assert(e2 == nil, "permissive accepts what strict accepts")
		vr.Assert(v1 == v2 && bytes.Equal(b1, b2), "same value in both modes")
		vr.Assert(o1 == o2, "same bytes consumed in both modes")
		vr.Cover("strict-ok")
	} else if e2 == nil {
		vr.Cover("permissive-only")
	} else {
		vr.Cover("both-reject")
	}
}

// verif: covers=strict-ok,permissive-only,both-reject
func VerifH_C20_asn1_integer() {
	in := vr.Bytes("in", vr.Int("n", 0, 9))
	which := vr.Int("which", 0, 1)
	hBoth(func() (uint64, []byte, int, error) {
		if which == 0 {
			v, err := parseInt64(in)
			return uint64(v), nil, 0, err
		}
		v, err := parseInt32(in)
		return uint64(v), nil, 0, err
	})
}

// verif: covers=strict-ok,permissive-only,both-reject
func VerifH_C20_asn1_header() {
	in := vr.Bytes("in", vr.Int("n", 1, 7))
	hBoth(func() (uint64, []byte, int, error) {
		t, off, err := parseTagAndLength(in, 0)
		c := uint64(0)
		if t.isCompound {
			c = 1
		}
		return uint64(t.class)<<62 ^ uint64(t.tag)<<31 ^ uint64(t.length)<<1 ^ c, nil, off, err
	})
}

// verif: covers=strict-ok,permissive-only
func VerifH_C20_asn1_strings() {
	in := vr.Bytes("in", vr.Int("n", 0, 3))
	which := vr.Int("which", 0, 3)
	hBoth(func() (uint64, []byte, int, error) {
		var s string
		var err error
		switch which {
		case 0:
			s, err = parseNumericString(in)
		case 1:
			s, err = parsePrintableString(in)
		case 2:
			s, err = parseIA5String(in)
		default:
			s, err = parseUTF8String(in)
		}
		return 0, []byte(s), 0, err
	})
}

// ---------- C01: every leaf parser is total in both modes ----------

// verif: covers=done
func VerifH_C01_asn1_leaf_total() {
	AllowPermissiveParsing = vr.Bool("permissive")
	max := 8
	if vr.Tier() == 1 {
		max = 10
	}
	in := vr.Bytes("in", vr.Int("n", 0, max))
	which := vr.Int("which", 0, 9)
	if which >= 6 && which <= 8 {
		vr.Assume(len(in) <= 4) // per-byte class forks: strings are bounded at 4 bytes
	}
	switch which {
	case 0:
		v, err := parseInt64(in)
		vr.Assert(err == nil || v == 0, "value xor error")
	case 1:
		v, err := parseInt32(in)
		vr.Assert(err == nil || v == 0, "value xor error")
	case 2:
		parseBool(in)
	case 3:
		bs, err := parseBitString(in)
		if err == nil {
			i := int(int16(vr.U16("bit")))
			b := bs.At(i)
			vr.Assert(b == 0 || b == 1, "At is total")
			ra := bs.RightAlign()
			vr.Assert(len(ra) == len(bs.Bytes), "RightAlign keeps the length")
		}
	case 4:
		oid, err := parseObjectIdentifier(in)
		vr.Assert(err != nil || len(oid) >= 2, "OID has at least two arcs")
	case 5:
		if len(in) > 0 {
			off0 := vr.Int("off", 0, len(in)-1)
			t, off, err := parseTagAndLength(in, off0)
			if err == nil {
				vr.Assert(off > off0 && off <= len(in) && t.length >= 0, "offset advances within input")
				invalidLength(off, t.length, len(in))
			}
		}
	case 6:
		parseNumericString(in)
		parsePrintableString(in)
		parseIA5String(in)
		parseT61String(in)
	case 7:
		parseUTF8String(in)
	case 8:
		if len(in) <= 6 {
			parseBMPString(in)
		}
	case 9:
		_, off, err := parseBase128Int(in, 0)
		vr.Assert(err != nil || (off > 0 && off <= len(in)), "offset within input")
	}
	vr.Cover("done")
}
