//go:build verif

package asn1

import (
	"bytes"
	"math/big"
	"time"
	"unicode/utf8"

	vr "github.com/zmap/zcrypto/internal/verifrt"
)

// C18 through the reflection-driven entry points: Marshal, then strict Unmarshal,
// then Marshal again, on values with symbolic contents. Each harness takes one
// group of types/tag options so that the path count stays small.

func c18ASCII(s string) {
	for i := 0; i < len(s); i++ {
		vr.Assume(s[i] < 0x80)
	}
}

type c18Scalars struct {
	A int
	B int64 `asn1:"optional,default:7"`
	C Enumerated
	D bool
	E Flag `asn1:"optional"`
	F int  `asn1:"explicit,tag:3"`
}

// verif: covers=done
func VerifH_C18_marshal_roundtrip_scalars() {
	in := c18Scalars{A: int(int32(vr.U32("a"))), B: int64(int8(vr.U8("b"))), C: Enumerated(vr.U8("c")), D: vr.Bool("d"), E: Flag(vr.Bool("e")), F: int(int16(vr.U16("f")))}
	der, err := Marshal(in)
	vr.Assert(err == nil, "marshals")
	var out c18Scalars
	rest, err := Unmarshal(der, &out)
	vr.Assert(err == nil && len(rest) == 0, "strict Unmarshal consumes Marshal's output")
	vr.Assert(out == in, "and yields an equal value")
	der2, err := Marshal(out)
	vr.Assert(err == nil && bytes.Equal(der, der2), "re-marshalling reproduces the bytes")
	vr.Cover("done")
}

type c18Strings struct {
	U string `asn1:"utf8"`
	I string `asn1:"ia5"`
	P string `asn1:"printable"`
	N string `asn1:"numeric"`
	D string // PrintableString when it fits, else UTF8String
}

// verif: covers=done,refused
func VerifH_C18_marshal_roundtrip_strings() {
	which := vr.Pick(vr.Int("field", 0, 4))
	s := vr.String("s", vr.Int("len", 0, 2))
	var in c18Strings
	switch which {
	case 0:
		in.U = s
	case 1:
		in.I = s
	case 2:
		in.P = s
	case 3:
		in.N = s
	case 4:
		in.D = s
	}
	vr.Assume(utf8.ValidString(s)) // the supported domain of a Go string field
	der, err := Marshal(in)
	if err != nil {
		// only a string outside the field's ASN.1 alphabet may be refused
		vr.Assert(which != 0 && which != 4, "UTF8String and untyped fields take every valid string")
		vr.Cover("refused")
		return
	}
	var out c18Strings
	rest, err := Unmarshal(der, &out)
	vr.Assert(err == nil && len(rest) == 0, "strict Unmarshal consumes Marshal's output")
	vr.Assert(out == in, "and yields an equal value")
	der2, err := Marshal(out)
	vr.Assert(err == nil && bytes.Equal(der, der2), "re-marshalling reproduces the bytes")
	vr.Cover("done")
}

type c18Binary struct {
	O ObjectIdentifier
	B BitString
	D []byte
	T []byte   `asn1:"tag:5,optional,omitempty"`
	R RawValue `asn1:"optional"` // last: an optional RawValue matches any element
}

// verif: covers=done
func VerifH_C18_marshal_roundtrip_binary() {
	var in c18Binary
	in.O = ObjectIdentifier{int(vr.Int("arc0", 0, 2)), int(vr.Int("arc1", 0, 39)), int(vr.U16("arc2"))}
	bits := vr.Bytes("bits", vr.Int("bitbytes", 0, 2))
	pad := 0
	if len(bits) > 0 {
		pad = vr.Int("pad", 0, 7)
		vr.Assume(bits[len(bits)-1]&byte(1<<uint(pad)-1) == 0) // padding bits are zero in a BitString value
	}
	in.B = BitString{Bytes: bits, BitLength: len(bits)*8 - pad}
	in.D = vr.Bytes("octets", vr.Int("dlen", 0, 2))
	if vr.Bool("long") {
		// concrete filler: content lengths 253..255 here, the enclosing SEQUENCE beyond 255
		in.D = append(in.D, make([]byte, 253)...)
	}
	in.T = vr.Bytes("tagged", vr.Int("tlen", 0, 1))
	if vr.Bool("hasRaw") {
		// a well-formed element of some other universal type: NULL or a one-byte INTEGER
		if vr.Bool("rawNull") {
			in.R = RawValue{Tag: TagNull, FullBytes: []byte{5, 0}}
		} else {
			b := vr.U8("rawInt")
			in.R = RawValue{Tag: TagInteger, Bytes: []byte{b}, FullBytes: []byte{2, 1, b}}
		}
	}
	der, err := Marshal(in)
	vr.Assert(err == nil, "marshals")
	var out c18Binary
	rest, err := Unmarshal(der, &out)
	vr.Assert(err == nil && len(rest) == 0, "strict Unmarshal consumes Marshal's output")
	vr.Assert(out.O.Equal(in.O) && bytes.Equal(out.B.Bytes, in.B.Bytes) && out.B.BitLength == in.B.BitLength && bytes.Equal(out.D, in.D) && bytes.Equal(out.T, in.T), "and yields equal values")
	vr.Assert(bytes.Equal(out.R.FullBytes, in.R.FullBytes), "a raw value is carried verbatim")
	der2, err := Marshal(out)
	vr.Assert(err == nil && bytes.Equal(der, der2), "re-marshalling reproduces the bytes")
	vr.Cover("done")
}

type c18Inner struct {
	X int
	Y []byte `asn1:"optional"`
}

type c18Nested struct {
	In   c18Inner
	Ex   c18Inner `asn1:"explicit,tag:1"`
	Im   c18Inner `asn1:"tag:2"`
	App  int      `asn1:"application,tag:4"`
	Priv int      `asn1:"private,tag:31"`
	L    []int
	S    []int    `asn1:"set"`
	Opt  c18Inner `asn1:"optional,tag:7"`
}

// verif: covers=done
func VerifH_C18_marshal_roundtrip_nested() {
	var in c18Nested
	in.In = c18Inner{X: int(int8(vr.U8("in.x"))), Y: vr.Bytes("in.y", vr.Int("in.ylen", 0, 1))}
	in.Ex = c18Inner{X: int(int8(vr.U8("ex.x")))}
	in.Im = c18Inner{X: int(int8(vr.U8("im.x")))}
	in.App, in.Priv = int(int8(vr.U8("app"))), int(int8(vr.U8("priv")))
	for i, n := 0, vr.Int("listlen", 0, 2); i < n; i++ {
		in.L = append(in.L, int(int8(vr.U8("l"))))
	}
	for i, n := 0, vr.Int("setlen", 0, 2); i < n; i++ {
		in.S = append(in.S, int(int8(vr.U8("s"))))
	}
	if vr.Bool("hasOpt") {
		in.Opt = c18Inner{X: 1 + int(vr.U8("opt.x")&0x3f)}
	}
	der, err := Marshal(in)
	vr.Assert(err == nil, "marshals")
	var out c18Nested
	rest, err := Unmarshal(der, &out)
	vr.Assert(err == nil && len(rest) == 0, "strict Unmarshal consumes Marshal's output")
	vr.Assert(out.In.X == in.In.X && bytes.Equal(out.In.Y, in.In.Y) && out.Ex.X == in.Ex.X && out.Im.X == in.Im.X && out.App == in.App && out.Priv == in.Priv && out.Opt.X == in.Opt.X, "and yields equal members")
	vr.Assert(len(out.L) == len(in.L) && len(out.S) == len(in.S), "with sequences of the same length")
	for i := range in.L {
		vr.Assert(out.L[i] == in.L[i], "SEQUENCE OF keeps order")
	}
	// SET OF is re-ordered by DER: same multiset
	if len(in.S) == 2 {
		vr.Assert((out.S[0] == in.S[0] && out.S[1] == in.S[1]) || (out.S[0] == in.S[1] && out.S[1] == in.S[0]), "SET OF keeps its elements")
	} else if len(in.S) == 1 {
		vr.Assert(out.S[0] == in.S[0], "SET OF keeps its element")
	}
	der2, err := Marshal(out)
	vr.Assert(err == nil && bytes.Equal(der, der2), "re-marshalling reproduces the bytes")
	vr.Cover("done")
}

type c18BigTime struct {
	N *big.Int
	U time.Time `asn1:"utc"`
	G time.Time `asn1:"generalized"`
	D time.Time
}

// verif: covers=done
func VerifH_C18_marshal_roundtrip_bigint_time() {
	n := big.NewInt(int64(int8(vr.U8("n")))) // 16-bit values left one round-trip assertion undecided
	// instants from a boundary list: calendar arithmetic on symbolic seconds is out of reach
	pick := func(label string, xs []int64) time.Time {
		return time.Unix(xs[vr.Pick(vr.Int(label, 0, len(xs)-1))], 0).UTC()
	}
	in := c18BigTime{N: n,
		U: pick("utc", []int64{-631152000, 0, 946684799, 946684800, 2524607999}),            // 1950-01-01 .. 2049-12-31
		G: pick("gen", []int64{-2208988800, 0, 2524608000, 253402300799}),                   // 1900 .. 9999
		D: pick("def", []int64{-631152000, 2524607999, 2524608000, -631152001, 4102444800})} // both sides of the UTCTime range
	der, err := Marshal(in)
	vr.Assert(err == nil, "marshals")
	var out c18BigTime
	rest, err := Unmarshal(der, &out)
	vr.Assert(err == nil && len(rest) == 0, "strict Unmarshal consumes Marshal's output")
	vr.Assert(out.N != nil && out.N.Cmp(in.N) == 0, "big integers round-trip")
	vr.Assert(out.U.Equal(in.U) && out.G.Equal(in.G) && out.D.Equal(in.D), "times round-trip")
	der2, err := Marshal(out)
	vr.Assert(err == nil && bytes.Equal(der, der2), "re-marshalling reproduces the bytes")
	vr.Cover("done")
}
