//go:build verif

package tls

import (
	vr "github.com/zmap/zcrypto/internal/verifrt"
)

// C33: the hand-written halves of the JSON codecs round-trip for every value.
// encoding/json itself is an identity carrier (engine model): the aux struct is
// transported unchanged, fields matched by JSON name, numbers range-checked.

// verif: covers=done
func VerifH_C33_tls_version() {
	v := TLSVersion(vr.U16("v"))
	b, err := v.MarshalJSON()
	vr.Assert(err == nil, "encodes")
	var g TLSVersion
	vr.Assert(g.UnmarshalJSON(b) == nil && g == v, "TLSVersion round-trips")
	vr.Cover("done")
}

// verif: covers=done
func VerifH_C33_cipher_suite() {
	v := CipherSuiteID(vr.U16("v"))
	b, err := v.MarshalJSON()
	vr.Assert(err == nil, "encodes")
	var g CipherSuiteID
	vr.Assert(g.UnmarshalJSON(b) == nil && g == v, "CipherSuiteID round-trips")
	vr.Cover("done")
}

// verif: covers=done
func VerifH_C33_small_enums() {
	{
		v := CompressionMethod(vr.U8("cm"))
		b, err := v.MarshalJSON()
		var g CompressionMethod
		vr.Assert(err == nil && g.UnmarshalJSON(b) == nil && g == v, "CompressionMethod round-trips")
	}
	{
		v := PointFormat(vr.U8("pf"))
		b, err := v.MarshalJSON()
		var g PointFormat
		vr.Assert(err == nil && g.UnmarshalJSON(b) == nil && g == v, "PointFormat round-trips")
	}
	vr.Cover("done")
}

// verif: covers=done
func VerifH_C33_curve_id() {
	v := CurveID(vr.U16("v"))
	b, err := v.MarshalJSON()
	var g CurveID
	vr.Assert(err == nil && g.UnmarshalJSON(b) == nil && g == v, "CurveID round-trips")
	ks := KeyShareExtension{KeyExchange: &v}
	b, err = ks.MarshalJSON()
	var gk KeyShareExtension
	vr.Assert(err == nil && gk.UnmarshalJSON(b) == nil && gk.KeyExchange != nil && *gk.KeyExchange == v, "KeyShareExtension round-trips")
	vr.Cover("done")
}

// verif: covers=done
func VerifH_C33_client_auth_type() {
	v := ClientAuthType(vr.Int("v", 0, 4)) // the defined constants
	b, err := v.MarshalJSON()
	vr.Assert(err == nil, "encodes")
	var g ClientAuthType
	panicked := vr.MayPanic(func() { err = g.UnmarshalJSON(b) })
	vr.Assert(!panicked, "decoding does not panic")
	vr.Assert(err == nil && g == v, "ClientAuthType round-trips")
	vr.Cover("done")
}

// verif: covers=done
func VerifH_C33_signature_and_hash() {
	v := SignatureAndHash{Signature: vr.U8("sig"), Hash: vr.U8("hash")}
	if vr.Tier() == 0 {
		// quick: each of the two codes ranges over all 256 values with the other fixed
		// (the two name tables are independent); thorough: all 256 x 256 pairs
		if vr.Bool("varySignature") {
			vr.Assume(v.Hash == 4)
		} else {
			vr.Assume(v.Signature == 1)
		}
	}
	b, err := v.MarshalJSON()
	vr.Assert(err == nil, "encodes")
	var g SignatureAndHash
	vr.Assert(g.UnmarshalJSON(b) == nil && g == v, "SignatureAndHash round-trips for all 256 x 256 codes")
	vr.Cover("done")
}
