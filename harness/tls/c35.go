//go:build verif

package tls

import (
	"container/list"

	vr "github.com/zmap/zcrypto/internal/verifrt"
)

type c35Ent struct {
	key string
	st  *ClientSessionState
}

type c35Model struct {
	capacity int
	ents     []c35Ent // most recently used first
}

func (m *c35Model) find(k string) int {
	for i, e := range m.ents {
		if e.key == k {
			return i
		}
	}
	return -1
}

func (m *c35Model) touch(i int) {
	e := m.ents[i]
	copy(m.ents[1:i+1], m.ents[:i])
	m.ents[0] = e
}

func (m *c35Model) get(k string) (*ClientSessionState, bool) {
	i := m.find(k)
	if i < 0 {
		return nil, false
	}
	m.touch(i)
	return m.ents[0].st, true
}

func (m *c35Model) put(k string, st *ClientSessionState) {
	i := m.find(k)
	if st == nil {
		if i >= 0 {
			m.ents = append(m.ents[:i], m.ents[i+1:]...)
		}
		return
	}
	if i >= 0 {
		m.ents[i].st = st
		m.touch(i)
		return
	}
	if len(m.ents) >= m.capacity {
		m.ents = m.ents[:len(m.ents)-1]
	}
	m.ents = append([]c35Ent{{k, st}}, m.ents...)
}

// c35CheckRep compares the real cache's representation with the model and
// checks the representation invariant (map <-> list bijection, Len <= capacity).
func c35CheckRep(c *lruSessionCache, m *c35Model, when string) {
	vr.Assert(c.q.Len() == len(m.ents), when+": number of entries")
	vr.Assert(len(c.m) == len(m.ents), when+": map size equals list length")
	vr.Assert(c.q.Len() <= c.capacity, when+": holds at most its capacity")
	i := 0
	for e := c.q.Front(); e != nil && i < len(m.ents); e = e.Next() {
		ent := e.Value.(*lruSessionCacheEntry)
		vr.Assert(ent.sessionKey == m.ents[i].key, when+": recency order / keys")
		vr.Assert(ent.state == m.ents[i].st, when+": stored session")
		me, ok := c.m[ent.sessionKey]
		vr.Assert(ok && me == e, when+": map entry points at its list element")
		i++
	}
}

func c35Op(c *lruSessionCache, m *c35Model, sts []*ClientSessionState, when string) {
	key := vr.String("key", vr.Int("keylen", 0, 1))
	if vr.Bool("isGet") {
		got, ok := c.Get(key)
		want, wok := m.get(key)
		vr.Assert(ok == wok, when+": Get presence")
		vr.Assert(got == want, when+": Get returns the most recent session stored")
	} else {
		st := sts[vr.Int("state", 0, 2)]
		c.Put(key, st)
		m.put(key, st)
	}
	c35CheckRep(c, m, when)
}

// C35 (a): one arbitrary operation from an arbitrary valid cache state.
// verif: covers=done
func VerifH_C35_lru_step() {
	sts := []*ClientSessionState{nil, {vers: 1}, {vers: 2}}
	capacity := vr.Int("cap", 1, 3)
	n := vr.Int("n", 0, capacity)
	c := &lruSessionCache{m: make(map[string]*list.Element), q: list.New(), capacity: capacity}
	m := &c35Model{capacity: capacity}
	for i := 0; i < n; i++ {
		k := vr.String("k", 1)
		for _, e := range m.ents {
			vr.Assume(e.key != k)
		}
		st := sts[vr.Int("st", 1, 2)]
		c.m[k] = c.q.PushBack(&lruSessionCacheEntry{k, st})
		m.ents = append(m.ents, c35Ent{k, st})
	}
	c35CheckRep(c, m, "pre-state")
	c35Op(c, m, sts, "after step")
	vr.Cover("done")
}

// C35 (b): histories of arbitrary operations from an empty cache.
// verif: covers=done maxpaths=400000
func VerifH_C35_lru_history() {
	sts := []*ClientSessionState{nil, {vers: 1}, {vers: 2}}
	steps := 4
	if vr.Tier() == 1 {
		steps = 5 // six steps exceed 400000 paths
	}
	capacity := vr.Int("cap", 1, 2)
	cache := NewLRUClientSessionCache(capacity).(*lruSessionCache)
	m := &c35Model{capacity: capacity}
	for i := 0; i < steps; i++ {
		c35Op(cache, m, sts, "history")
	}
	vr.Cover("done")
}

// C35 (c): capacity < 1 selects the documented default.
// verif: covers=done
func VerifH_C35_lru_default_capacity() {
	capacity := int(int8(vr.U8("cap")))
	c := NewLRUClientSessionCache(capacity).(*lruSessionCache)
	if capacity < 1 {
		vr.Assert(c.capacity == 64, "default capacity")
	} else {
		vr.Assert(c.capacity == capacity, "given capacity")
	}
	vr.Cover("done")
}
