//go:build verif

package tls

import (
	"bytes"

	vr "github.com/zmap/zcrypto/internal/verifrt"
)

func c30u16s(label string, lo, hi int) []uint16 {
	n := vr.Int(label+"#", lo, hi)
	var out []uint16
	for i := 0; i < n; i++ {
		out = append(out, vr.U16(label))
	}
	return out
}

func c30eqU16s(a, b []uint16) bool {
	if len(a) != len(b) {
		return false
	}
	for i := range a {
		if a[i] != b[i] {
			return false
		}
	}
	return true
}

func c30eqCH(a, b *clientHelloMsg) bool {
	if a.vers != b.vers || !bytes.Equal(a.random, b.random) || !bytes.Equal(a.sessionId, b.sessionId) ||
		!c30eqU16s(a.cipherSuites, b.cipherSuites) || !bytes.Equal(a.compressionMethods, b.compressionMethods) ||
		a.serverName != b.serverName || a.ocspStapling != b.ocspStapling {
		return false
	}
	if len(a.supportedCurves) != len(b.supportedCurves) {
		return false
	}
	for i := range a.supportedCurves {
		if a.supportedCurves[i] != b.supportedCurves[i] {
			return false
		}
	}
	if !bytes.Equal(a.supportedPoints, b.supportedPoints) || a.ticketSupported != b.ticketSupported ||
		!bytes.Equal(a.sessionTicket, b.sessionTicket) ||
		!c30eqSchemes(a.supportedSignatureAlgorithms, b.supportedSignatureAlgorithms) ||
		!c30eqSchemes(a.supportedSignatureAlgorithmsCert, b.supportedSignatureAlgorithmsCert) ||
		a.secureRenegotiationSupported != b.secureRenegotiationSupported ||
		!bytes.Equal(a.secureRenegotiation, b.secureRenegotiation) ||
		a.extendedRandomEnabled != b.extendedRandomEnabled || !bytes.Equal(a.extendedRandom, b.extendedRandom) ||
		a.extendedMasterSecret != b.extendedMasterSecret || a.scts != b.scts ||
		!c30eqU16s(a.supportedVersions, b.supportedVersions) || !bytes.Equal(a.cookie, b.cookie) ||
		a.earlyData != b.earlyData || !bytes.Equal(a.pskModes, b.pskModes) || !c30eqBss(a.pskBinders, b.pskBinders) {
		return false
	}
	if len(a.alpnProtocols) != len(b.alpnProtocols) || len(a.keyShares) != len(b.keyShares) || len(a.pskIdentities) != len(b.pskIdentities) {
		return false
	}
	for i := range a.alpnProtocols {
		if a.alpnProtocols[i] != b.alpnProtocols[i] {
			return false
		}
	}
	for i := range a.keyShares {
		if a.keyShares[i].group != b.keyShares[i].group || !bytes.Equal(a.keyShares[i].data, b.keyShares[i].data) {
			return false
		}
	}
	for i := range a.pskIdentities {
		if a.pskIdentities[i].obfuscatedTicketAge != b.pskIdentities[i].obfuscatedTicketAge || !bytes.Equal(a.pskIdentities[i].label, b.pskIdentities[i].label) {
			return false
		}
	}
	return true
}

func c30chBase() *clientHelloMsg {
	return &clientHelloMsg{vers: vr.U16("vers"), random: vr.Bytes("random", 32), compressionMethods: []uint8{0}}
}

func c30chCheck(m *clientHelloMsg) {
	raw := m.marshal()
	var g clientHelloMsg
	vr.Assert(g.unmarshal(raw), "clientHello unmarshals")
	vr.Assert(c30eqCH(&g, m), "clientHello round-trips")
	vr.Cover("done")
}

// ClientHello group 1: fixed part, session id, suites, compression, SNI, OCSP.
// verif: covers=done
func VerifH_C30_clientHello_g1() {
	m := c30chBase()
	m.sessionId = c30bs("sid", 0, 2)
	m.cipherSuites = c30u16s("suite", 0, 2)
	for _, s := range m.cipherSuites {
		vr.Assume(s != scsvRenegotiation) // that suite value sets a derived flag on the receiver
	}
	m.compressionMethods = c30bs("comp", 0, 2)
	sn := c30bs("sni", 0, 2)
	if len(sn) > 0 {
		vr.Assume(sn[len(sn)-1] != '.') // documented: no trailing dot
	}
	m.serverName = string(sn)
	m.ocspStapling = vr.Bool("ocsp")
	c30chCheck(m)
}

// ClientHello group 2: curves, points, ticket, signature algorithms.
// verif: covers=done
func VerifH_C30_clientHello_g2() {
	m := c30chBase()
	for _, c := range c30u16s("curve", 0, 2) {
		m.supportedCurves = append(m.supportedCurves, CurveID(c))
	}
	m.supportedPoints = c30bs("points", 0, 2)
	m.ticketSupported = vr.Bool("ticket")
	if m.ticketSupported {
		m.sessionTicket = c30bs("ticketbytes", 0, 2)
	}
	m.supportedSignatureAlgorithms = c30schemes("sa", 0, 2)
	m.supportedSignatureAlgorithmsCert = c30schemes("sac", 0, 2)
	c30chCheck(m)
}

// ClientHello group 3: renegotiation info, ALPN, extended random, EMS, SCT.
// verif: covers=done
func VerifH_C30_clientHello_g3() {
	m := c30chBase()
	m.secureRenegotiationSupported = vr.Bool("reneg")
	if m.secureRenegotiationSupported {
		m.secureRenegotiation = c30bs("renegbytes", 0, 2)
	}
	for _, p := range c30bss("alpn", 0, 2, 1, 2) {
		m.alpnProtocols = append(m.alpnProtocols, string(p))
	}
	m.extendedRandomEnabled = vr.Bool("er")
	if m.extendedRandomEnabled {
		m.extendedRandom = c30bs("erbytes", 1, 3)
	}
	m.extendedMasterSecret = vr.Bool("ems")
	m.scts = vr.Bool("scts")
	c30chCheck(m)
}

// ClientHello group 4: TLS 1.3 extensions.
// verif: covers=done
func VerifH_C30_clientHello_g4() {
	m := c30chBase()
	m.supportedVersions = c30u16s("sv", 0, 2)
	m.cookie = c30bs("cookie", 0, 2)
	nks := vr.Int("nks", 0, 2)
	for i := 0; i < nks; i++ {
		m.keyShares = append(m.keyShares, keyShare{group: CurveID(vr.U16("ksg")), data: c30bs("ksd", 1, 2)})
	}
	m.earlyData = vr.Bool("early")
	m.pskModes = c30bs("pskmodes", 0, 2)
	npsk := vr.Int("npsk", 0, 2)
	for i := 0; i < npsk; i++ {
		m.pskIdentities = append(m.pskIdentities, pskIdentity{label: c30bs("pskl", 1, 2), obfuscatedTicketAge: vr.U32("age")})
	}
	if npsk > 0 {
		m.pskBinders = c30bss("binder", 1, 2, 1, 2)
	}
	c30chCheck(m)
}

// ClientHello group 5: one part from each group together (ordering/offset interplay).
// verif: covers=done
func VerifH_C30_clientHello_g5() {
	m := c30chBase()
	m.sessionId = c30bs("sid", 0, 1)
	sn := c30bs("sni", 0, 2)
	if len(sn) > 0 {
		vr.Assume(sn[len(sn)-1] != '.')
	}
	m.serverName = string(sn)
	for _, c := range c30u16s("curve", 0, 1) {
		m.supportedCurves = append(m.supportedCurves, CurveID(c))
	}
	for _, p := range c30bss("alpn", 0, 1, 1, 2) {
		m.alpnProtocols = append(m.alpnProtocols, string(p))
	}
	m.extendedMasterSecret = vr.Bool("ems")
	if vr.Bool("ks") {
		m.keyShares = []keyShare{{group: CurveID(vr.U16("ksg")), data: c30bs("ksd", 1, 2)}}
	}
	if vr.Bool("psk") {
		m.pskIdentities = []pskIdentity{{label: c30bs("pskl", 1, 2), obfuscatedTicketAge: vr.U32("age")}}
		m.pskBinders = c30bss("binder", 1, 1, 1, 2)
	}
	c30chCheck(m)
}

func c30eqSH(a, b *serverHelloMsg) bool {
	return a.vers == b.vers && bytes.Equal(a.random, b.random) && bytes.Equal(a.sessionId, b.sessionId) &&
		a.cipherSuite == b.cipherSuite && a.compressionMethod == b.compressionMethod && a.ocspStapling == b.ocspStapling &&
		a.ticketSupported == b.ticketSupported && a.secureRenegotiationSupported == b.secureRenegotiationSupported &&
		bytes.Equal(a.secureRenegotiation, b.secureRenegotiation) && a.extendedMasterSecret == b.extendedMasterSecret &&
		a.alpnProtocol == b.alpnProtocol && c30eqBss(a.scts, b.scts) && a.supportedVersion == b.supportedVersion &&
		a.serverShare.group == b.serverShare.group && bytes.Equal(a.serverShare.data, b.serverShare.data) &&
		a.selectedIdentityPresent == b.selectedIdentityPresent && a.selectedIdentity == b.selectedIdentity &&
		bytes.Equal(a.supportedPoints, b.supportedPoints) && bytes.Equal(a.cookie, b.cookie) && a.selectedGroup == b.selectedGroup &&
		c30eqBss(a.unknownExtensions, b.unknownExtensions)
}

func c30shBase() *serverHelloMsg {
	return &serverHelloMsg{vers: vr.U16("vers"), random: vr.Bytes("random", 32), sessionId: c30bs("sid", 0, 2),
		cipherSuite: vr.U16("suite"), compressionMethod: vr.U8("comp")}
}

func c30shCheck(m *serverHelloMsg) {
	raw := m.marshal()
	var g serverHelloMsg
	vr.Assert(g.unmarshal(raw), "serverHello unmarshals")
	vr.Assert(c30eqSH(&g, m), "serverHello round-trips")
	vr.Cover("done")
}

// ServerHello group 1: TLS <= 1.2 extensions.
// verif: covers=done
func VerifH_C30_serverHello_g1() {
	m := c30shBase()
	m.ocspStapling = vr.Bool("ocsp")
	m.ticketSupported = vr.Bool("ticket")
	m.secureRenegotiationSupported = vr.Bool("reneg")
	if m.secureRenegotiationSupported {
		m.secureRenegotiation = c30bs("renegbytes", 0, 2)
	}
	m.alpnProtocol = string(c30bs("alpn", 0, 2))
	m.scts = c30bss("sct", 0, 2, 1, 2)
	m.supportedPoints = c30bs("points", 0, 2)
	m.extendedMasterSecret = vr.Bool("ems")
	c30shCheck(m)
}

// ServerHello group 2: TLS 1.3 extensions (ServerHello or HelloRetryRequest form).
// verif: covers=done
func VerifH_C30_serverHello_g2() {
	m := c30shBase()
	m.supportedVersion = vr.U16("sv")
	if vr.Bool("hrr") {
		m.selectedGroup = CurveID(vr.U16("group"))
		m.cookie = c30bs("cookie", 0, 2)
	} else {
		m.serverShare.group = CurveID(vr.U16("ksg"))
		if m.serverShare.group != 0 {
			m.serverShare.data = c30bs("ksd", 0, 2)
		}
		m.selectedIdentityPresent = vr.Bool("psk")
		if m.selectedIdentityPresent {
			m.selectedIdentity = vr.U16("pskid")
		}
	}
	c30shCheck(m)
}

// ServerHello group 3: extensions this library does not interpret are kept verbatim.
// verif: covers=done
func VerifH_C30_serverHello_g3() {
	m := c30shBase()
	n := vr.Int("nunk", 0, 2)
	for i := 0; i < n; i++ {
		typ := vr.U16("exttype")
		switch typ {
		case extensionStatusRequest, extensionSessionTicket, extensionRenegotiationInfo, extensionALPN, extensionSCT,
			extensionSupportedVersions, extensionCookie, extensionKeyShare, extensionPreSharedKey, extensionSupportedPoints,
			extensionExtendedMasterSecret:
			vr.Assume(false)
		}
		data := c30bs("extdata", 0, 2)
		ext := append([]byte{byte(typ >> 8), byte(typ), 0, byte(len(data))}, data...)
		m.unknownExtensions = append(m.unknownExtensions, ext)
	}
	m.ticketSupported = vr.Bool("ticket")
	c30shCheck(m)
}
