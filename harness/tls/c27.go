//go:build verif

package tls

import (
	"crypto/ecdsa"
	"crypto/ed25519"
	"errors"
	"time"

	vr "github.com/zmap/zcrypto/internal/verifrt"
	"github.com/zmap/zcrypto/rsa"
	"github.com/zmap/zcrypto/x509"
)

var c27ErrCB = errors.New("callback refused")

// c27Certs installs a ParseCertificate stub: blob i parses to certs[i] or fails.
func c27ParseStub(n int) (blobs [][]byte, certs []*x509.Certificate, parseOK []bool) {
	for i := 0; i < n; i++ {
		blobs = append(blobs, []byte{byte(i)})
		c := &x509.Certificate{Raw: []byte{byte(i)}, FingerprintSHA256: []byte{byte(i)}}
		if i == 0 {
			switch vr.Pick(vr.Int("keytype", 0, 5)) {
			case 0:
				c.PublicKey = &rsa.PublicKey{}
			case 1:
				c.PublicKey = &x509.AugmentedECDSA{}
			case 2:
				c.PublicKey = &ecdsa.PublicKey{}
			case 3:
				c.PublicKey = ed25519.PublicKey{}
			case 4:
				c.PublicKey = nil
			case 5:
				c.PublicKey = "unsupported"
			}
		}
		certs = append(certs, c)
		parseOK = append(parseOK, vr.Bool("parses"))
	}
	vr.Stub("github.com/zmap/zcrypto/x509.ParseCertificate", func(der []byte) (*x509.Certificate, error) {
		if len(der) == 1 && int(der[0]) < n && parseOK[der[0]] {
			return certs[der[0]], nil
		}
		return nil, errors.New("model: parse error")
	})
	return
}

func c27KeyOK(c *x509.Certificate) bool {
	switch c.PublicKey.(type) {
	case *rsa.PublicKey, *x509.AugmentedECDSA, *ecdsa.PublicKey, ed25519.PublicKey:
		return true
	}
	return false
}

// C27 (client): the server certificate is accepted only if verification was
// skipped on purpose or the chain verified for the configured name, time and
// roots, the key type is supported and every configured callback agreed.
// verif: covers=accepted,refused
func VerifH_C27_verify_server_certificate() {
	c24SendAlertStub()
	n := vr.Int("ncerts", 1, 2)
	blobs, certs, parseOK := c27ParseStub(n)
	now := time.Unix(int64(vr.U16("now")), 0)
	roots := x509.NewCertPool()
	cfg := &Config{InsecureSkipVerify: vr.Bool("skipVerify"), ServerName: string(c30bs("name", 0, 2)), RootCAs: roots,
		Time: func() time.Time { return now }}
	chainOK := vr.Bool("chainVerifies")
	var seen x509.VerifyOptions
	vr.Stub("(*github.com/zmap/zcrypto/x509.Certificate).ValidateWithStupidDetail", func(c *x509.Certificate, opts x509.VerifyOptions) ([]x509.CertificateChain, *x509.Validation, error) {
		seen = opts
		vr.Assert(c == certs[0], "the leaf (first certificate) is the one verified")
		if chainOK {
			return []x509.CertificateChain{{c}}, &x509.Validation{}, nil
		}
		return nil, &x509.Validation{}, errors.New("model: chain does not verify")
	})
	cb1, cb2 := vr.Int("cb1", 0, 2), vr.Int("cb2", 0, 2) // 0 absent, 1 agrees, 2 refuses
	if cb1 > 0 {
		cfg.VerifyPeerCertificate = func(raw [][]byte, chains []x509.CertificateChain) error {
			if cb1 == 2 {
				return c27ErrCB
			}
			return nil
		}
	}
	if cb2 > 0 {
		cfg.VerifyConnection = func(ConnectionState) error {
			if cb2 == 2 {
				return c27ErrCB
			}
			return nil
		}
	}
	c := &Conn{config: cfg, handshakeLog: &ServerHandshake{ServerCertificates: (&certificateMsg{certificates: blobs}).MakeLog()}}
	err := c.verifyServerCertificate(blobs)

	allParse := true
	for _, ok := range parseOK {
		allParse = allParse && ok
	}
	want := allParse && (cfg.InsecureSkipVerify || chainOK) && c27KeyOK(certs[0]) && cb1 != 2 && cb2 != 2
	vr.Assert((err == nil) == want, "accepted exactly when parsing, (skipped or successful) verification, key type and callbacks all agree")
	if allParse {
		vr.Assert(seen.DNSName == cfg.ServerName && seen.CurrentTime.Equal(now) && seen.Roots == roots, "verification used the configured name, time and roots")
		if n == 2 {
			vr.Assert(seen.Intermediates != nil && seen.Intermediates.Size() == 1, "remaining certificates are offered as intermediates")
		}
	}
	if err == nil {
		vr.Assert(len(c.peerCertificates) == n && c.peerCertificates[0] == certs[0], "peer certificates recorded")
		vr.Cover("accepted")
	} else {
		vr.Cover("refused")
	}
}

// C27 (server): the ClientAuth mode decides which presented chains are accepted.
// verif: covers=accepted,refused
func VerifH_C27_process_certs_from_client() {
	c24SendAlertStub()
	n := vr.Int("ncerts", 0, 2)
	blobs, certs, parseOK := c27ParseStub(n)
	now := time.Unix(int64(vr.U16("now")), 0)
	cas := x509.NewCertPool()
	mode := ClientAuthType(vr.Pick(vr.Int("clientAuth", 0, 4)))
	cfg := &Config{ClientAuth: mode, ClientCAs: cas, Time: func() time.Time { return now }}
	chainOK := vr.Bool("chainVerifies")
	verified := false
	var seen x509.VerifyOptions
	vr.Stub("(*github.com/zmap/zcrypto/x509.Certificate).Verify", func(c *x509.Certificate, opts x509.VerifyOptions) (cur, exp, never []x509.CertificateChain, err error) {
		seen = opts
		verified = true
		vr.Assert(c == certs[0], "the leaf is the one verified")
		if chainOK {
			return []x509.CertificateChain{{c}}, nil, nil, nil
		}
		return nil, nil, nil, errors.New("model: chain does not verify")
	})
	cb := vr.Int("cb", 0, 2)
	if cb > 0 {
		cfg.VerifyPeerCertificate = func(raw [][]byte, chains []x509.CertificateChain) error {
			if cb == 2 {
				return c27ErrCB
			}
			return nil
		}
	}
	c := &Conn{config: cfg}
	err := c.processCertsFromClient(Certificate{Certificate: blobs})

	allParse := true
	for _, ok := range parseOK {
		allParse = allParse && ok
	}
	want := allParse
	if n == 0 && (mode == RequireAnyClientCert || mode == RequireAndVerifyClientCert) {
		want = false
	}
	mustVerify := n > 0 && (mode == VerifyClientCertIfGiven || mode == RequireAndVerifyClientCert)
	if mustVerify && !chainOK {
		want = false
	}
	if n > 0 && want && !c27KeyOK(certs[0]) {
		want = false
	}
	if cb == 2 {
		want = false
	}
	vr.Assert((err == nil) == want, "client certificates are accepted exactly per the documented ClientAuth table")
	if allParse && mustVerify {
		vr.Assert(verified && seen.Roots == cas && seen.CurrentTime.Equal(now) && len(seen.KeyUsages) == 1 && seen.KeyUsages[0] == x509.ExtKeyUsageClientAuth,
			"verification used ClientCAs, the configured time and the client-auth key usage")
	}
	if allParse && !mustVerify {
		vr.Assert(!verified, "no verification in modes that do not ask for it")
	}
	if err == nil {
		vr.Cover("accepted")
	} else {
		vr.Cover("refused")
	}
}

// verif: covers=done
func VerifH_C27_requires_client_cert() {
	m := ClientAuthType(int(int8(vr.U8("mode"))))
	vr.Assert(requiresClientCert(m) == (m == RequireAnyClientCert || m == RequireAndVerifyClientCert), "only the two Require modes demand a certificate")
	vr.Cover("done")
}

// C27: possession of the certified key — the shared handshake-signature check
// (ServerKeyExchange, CertificateVerify in every version) accepts only under a key
// of the signature type's family. Same harness as C03's TLS dispatch check.
// verif: covers=accepted,rejected
func VerifH_C27_handshake_signature_needs_matching_key() { VerifH_C03_tls_verify_handshake_signature() }

// C27 on resumption: a client that verifies the server must not resume a cached
// session whose original handshake skipped verification (no verified chains), whose
// server certificate has expired, or whose certificate does not match the server
// name; a client that skips verification may resume any of them. (TLS <= 1.2 path of
// loadSession; hostname matching itself is decided under C09 and is a stub here.)
type c27Cache struct {
	s       *ClientSessionState
	removed bool
}

func (c *c27Cache) Get(key string) (*ClientSessionState, bool) { return c.s, c.s != nil }
func (c *c27Cache) Put(key string, s *ClientSessionState) {
	if s == nil {
		c.removed = true
	}
	c.s = s
}

// verif: covers=resumed,not-resumed
func VerifH_C27_resumption_requires_verified_session() {
	nameOK := vr.Bool("nameMatches")
	vr.Stub("(*github.com/zmap/zcrypto/x509.Certificate).VerifyHostname", func(c *x509.Certificate, h string) error {
		if nameOK {
			return nil
		}
		return errors.New("model: name mismatch")
	})
	cert := &x509.Certificate{NotAfter: time.Unix(2000, 0)}
	session := &ClientSessionState{vers: VersionTLS12, cipherSuite: TLS_RSA_WITH_AES_128_CBC_SHA, sessionTicket: []byte{7}, serverCertificates: []*x509.Certificate{cert}}
	originalVerified := vr.Bool("originalHandshakeVerified")
	if originalVerified {
		session.verifiedChains = []x509.CertificateChain{{cert}}
	}
	expired := vr.Bool("certificateExpired")
	now := int64(1000)
	if expired {
		now = 3000
	}
	cache := &c27Cache{s: session}
	cfg := &Config{InsecureSkipVerify: vr.Bool("skipVerify"), ClientSessionCache: cache, ServerName: "host.example",
		Time: func() time.Time { return time.Unix(now, 0) }}
	hello := &clientHelloMsg{supportedVersions: []uint16{VersionTLS12}, cipherSuites: []uint16{TLS_RSA_WITH_AES_128_CBC_SHA}}
	c := &Conn{config: cfg, conn: &mConn{}}
	_, got, _, _ := c.loadSession(hello)
	want := cfg.InsecureSkipVerify || (originalVerified && !expired && nameOK)
	vr.Assert((got != nil) == want, "a session is resumed exactly when this configuration may trust the identity it was established with")
	vr.Assert((len(hello.sessionTicket) != 0) == want, "and only then is its ticket offered")
	if want {
		vr.Cover("resumed")
	} else {
		vr.Cover("not-resumed")
	}
}
