//go:build verif

package tls

import (
	"bytes"
	"crypto"
	"hash"
	"io"

	vr "github.com/zmap/zcrypto/internal/verifrt"
)

// ---------- ideal hash / HMAC / HKDF (uninterpreted functions of their inputs) ----------

type mHash struct {
	id   string
	size int
	buf  []byte
}

func (h *mHash) Write(p []byte) (int, error) { h.buf = append(h.buf, p...); return len(p), nil }
func (h *mHash) Sum(b []byte) []byte {
	return append(b, vr.UF("H-"+h.id, h.size, append([]byte{}, h.buf...))...)
}
func (h *mHash) Reset()         { h.buf = nil }
func (h *mHash) Size() int      { return h.size }
func (h *mHash) BlockSize() int { return 64 }

type mHMAC struct {
	id   string
	size int
	key  []byte
	buf  []byte
}

func (h *mHMAC) Write(p []byte) (int, error) { h.buf = append(h.buf, p...); return len(p), nil }
func (h *mHMAC) Sum(b []byte) []byte {
	return append(b, cHMAC(h.id, h.size, h.key, h.buf)...)
}
func (h *mHMAC) Reset()         { h.buf = nil }
func (h *mHMAC) Size() int      { return h.size }
func (h *mHMAC) BlockSize() int { return 64 }

func cHMAC(id string, size int, key, data []byte) []byte {
	return vr.UF("HMAC-"+id, size, append([]byte{}, key...), append([]byte{}, data...))
}

type mHKDFReader struct {
	id        string
	prk, info []byte
}

func (r *mHKDFReader) Read(p []byte) (int, error) {
	copy(p, cHKDFExpand(r.id, r.prk, r.info, len(p)))
	return len(p), nil
}

func cHKDFExpand(id string, prk, info []byte, n int) []byte {
	return vr.UF("HKDF-Expand-"+id, n, append([]byte{}, prk...), append([]byte{}, info...))
}

func cHKDFExtract(id string, secret, salt []byte) []byte {
	sz := 32
	if id == "sha384" {
		sz = 48
	}
	return vr.UF("HKDF-Extract-"+id, sz, append([]byte{}, secret...), append([]byte{}, salt...))
}

// cryptoStubs installs the ideal models in place of the real primitives.
func cryptoStubs() {
	vr.Stub("crypto/md5.New", func() hash.Hash { return &mHash{id: "md5", size: 16} })
	vr.Stub("crypto/sha1.New", func() hash.Hash { return &mHash{id: "sha1", size: 20} })
	vr.Stub("crypto/sha256.New", func() hash.Hash { return &mHash{id: "sha256", size: 32} })
	vr.Stub("crypto/sha512.New384", func() hash.Hash { return &mHash{id: "sha384", size: 48} })
	vr.Stub("crypto/sha512.New", func() hash.Hash { return &mHash{id: "sha512", size: 64} })
	vr.Stub("crypto/hmac.New", func(h func() hash.Hash, key []byte) hash.Hash {
		m := h().(*mHash)
		return &mHMAC{id: m.id, size: m.size, key: append([]byte{}, key...)}
	})
	vr.Stub("golang.org/x/crypto/hkdf.Expand", func(h func() hash.Hash, prk, info []byte) io.Reader {
		m := h().(*mHash)
		return &mHKDFReader{id: m.id, prk: append([]byte{}, prk...), info: append([]byte{}, info...)}
	})
	vr.Stub("golang.org/x/crypto/hkdf.Extract", func(h func() hash.Hash, secret, salt []byte) []byte {
		m := h().(*mHash)
		return cHKDFExtract(m.id, secret, salt)
	})
}

func hashSize(id string) int {
	switch id {
	case "md5":
		return 16
	case "sha1":
		return 20
	case "sha256":
		return 32
	}
	return 48
}

// ---------- references written from the RFC text ----------

// RFC 5246 §5: P_hash(secret, seed) = HMAC(secret, A(1)+seed) + HMAC(secret, A(2)+seed) + ...
func refPHash(id string, secret, seed []byte, n int) []byte {
	sz := hashSize(id)
	var out []byte
	a := cHMAC(id, sz, secret, seed) // A(1)
	for len(out) < n {
		out = append(out, cHMAC(id, sz, secret, append(append([]byte{}, a...), seed...))...)
		a = cHMAC(id, sz, secret, a)
	}
	return out[:n]
}

func cat(parts ...[]byte) []byte {
	var out []byte
	for _, p := range parts {
		out = append(out, p...)
	}
	return out
}

// RFC 2246 §5.
func refPRF10(secret, label, seed []byte, n int) []byte {
	half := (len(secret) + 1) / 2
	s1, s2 := secret[:half], secret[len(secret)-half:]
	a := refPHash("md5", s1, cat(label, seed), n)
	b := refPHash("sha1", s2, cat(label, seed), n)
	for i := range a {
		a[i] ^= b[i]
	}
	return a
}

func refPRF(version uint16, sha384 bool, secret, label, seed []byte, n int) []byte {
	if version < VersionTLS12 {
		return refPRF10(secret, label, seed, n)
	}
	if sha384 {
		return refPHash("sha384", secret, cat(label, seed), n)
	}
	return refPHash("sha256", secret, cat(label, seed), n)
}

func c26Suite() (uint16, *cipherSuite, bool) {
	version := []uint16{VersionTLS10, VersionTLS11, VersionTLS12}[vr.Int("version", 0, 2)]
	sha384 := false
	suite := &cipherSuite{}
	if version == VersionTLS12 && vr.Bool("sha384") {
		sha384 = true
		suite.flags = suiteSHA384
	}
	return version, suite, sha384
}

// PRF with arbitrary secret / label / seed and every output length.
// verif: covers=done
func VerifH_C26_prf() {
	cryptoStubs()
	version, suite, sha384 := c26Suite()
	secret := vr.Bytes("secret", vr.Int("slen", 0, 3))
	label := vr.Bytes("label", vr.Int("llen", 0, 2))
	seed := vr.Bytes("seed", vr.Int("seedlen", 0, 2))
	maxN := 41
	if sha384 {
		maxN = 97
	}
	n := vr.Int("n", 0, maxN)
	if vr.Tier() == 0 {
		// quick: the truncation boundaries only
		n = []int{0, 1, 15, 16, 17, 20, 21, 32, 33, 40, 41, 48, 49, 96, 97}[vr.Int("nq", 0, 14)]
		vr.Assume(n <= maxN)
	}
	out := make([]byte, n)
	prfForVersion(version, suite)(out, secret, label, seed)
	vr.Assert(bytes.Equal(out, refPRF(version, sha384, secret, label, seed, n)), "PRF output equals the RFC definition")
	vr.Cover("done")
}

// verif: covers=done
func VerifH_C26_master_and_keys() {
	cryptoStubs()
	version, suite, sha384 := c26Suite()
	pre := vr.Bytes("pre", vr.Int("prelen", 0, 3))
	cr := vr.Bytes("cr", 2)
	sr := vr.Bytes("sr", 2)
	ms := masterFromPreMasterSecret(version, suite, pre, cr, sr)
	vr.Assert(bytes.Equal(ms, refPRF(version, sha384, pre, []byte("master secret"), cat(cr, sr), 48)), "master secret per RFC 5246 §8.1")
	macLen, keyLen, ivLen := vr.Int("macLen", 0, 3), vr.Int("keyLen", 0, 3), vr.Int("ivLen", 0, 2)
	cm, sm, ck, sk, civ, siv := keysFromMasterSecret(version, suite, ms, cr, sr, macLen, keyLen, ivLen)
	kb := refPRF(version, sha384, ms, []byte("key expansion"), cat(sr, cr), 2*macLen+2*keyLen+2*ivLen)
	vr.Assert(bytes.Equal(cat(cm, sm, ck, sk, civ, siv), kb), "key block is split in the RFC 5246 §6.3 order")
	vr.Assert(len(cm) == macLen && len(sm) == macLen && len(ck) == keyLen && len(sk) == keyLen && len(civ) == ivLen && len(siv) == ivLen, "key block piece lengths")
	vr.Cover("done")
}

// verif: covers=done
func VerifH_C26_finished() {
	cryptoStubs()
	version, suite, sha384 := c26Suite()
	ms := vr.Bytes("ms", vr.Int("mslen", 0, 3))
	fh := newFinishedHash(version, suite)
	m1 := vr.Bytes("hs1", vr.Int("hs1len", 0, 2))
	m2 := vr.Bytes("hs2", vr.Int("hs2len", 0, 2))
	fh.Write(m1)
	fh.Write(m2)
	msgs := cat(m1, m2)
	var th []byte
	switch {
	case version < VersionTLS12:
		th = cat(vr.UF("H-md5", 16, msgs), vr.UF("H-sha1", 20, msgs))
	case sha384:
		th = vr.UF("H-sha384", 48, msgs)
	default:
		th = vr.UF("H-sha256", 32, msgs)
	}
	vr.Assert(bytes.Equal(fh.clientSum(ms), refPRF(version, sha384, ms, []byte("client finished"), th, 12)), "client verify_data per RFC 5246 §7.4.9")
	vr.Assert(bytes.Equal(fh.serverSum(ms), refPRF(version, sha384, ms, []byte("server finished"), th, 12)), "server verify_data per RFC 5246 §7.4.9")
	vr.Cover("done")
}

// verif: covers=done
func VerifH_C26_ekm() {
	cryptoStubs()
	version, suite, sha384 := c26Suite()
	ms := vr.Bytes("ms", vr.Int("mslen", 0, 1+vr.Tier()))
	cr := vr.Bytes("cr", 2)
	sr := vr.Bytes("sr", 2)
	label := vr.String("label", vr.Int("llen", 0, 2))
	var context []byte
	if vr.Bool("withContext") {
		context = vr.Bytes("ctx", vr.Int("ctxlen", 0, 2))
		if context == nil {
			context = []byte{}
		}
	}
	n := []int{0, 1, 16, 20, 21, 33}[vr.Int("n", 0, 2+3*vr.Tier())]
	ekm, err := ekmFromMasterSecret(version, suite, ms, cr, sr)(label, context, n)
	vr.Assert(err == nil, "unreserved label exports")
	seed := cat(cr, sr)
	if context != nil {
		seed = cat(seed, []byte{byte(len(context) >> 8), byte(len(context))}, context)
	}
	vr.Assert(bytes.Equal(ekm, refPRF(version, sha384, ms, []byte(label), seed, n)), "exporter per RFC 5705 §4")
	vr.Cover("done")
}

// RFC 8446 §7.1: HKDF-Expand-Label and Derive-Secret, §7.2-7.5.
func refExpandLabel(id string, secret []byte, label string, context []byte, n int) []byte {
	full := "tls13 " + label
	info := cat([]byte{byte(n >> 8), byte(n), byte(len(full))}, []byte(full), []byte{byte(len(context))}, context)
	return cHKDFExpand(id, secret, info, n)
}

func c26Suite13() (*cipherSuiteTLS13, string) {
	if vr.Bool("sha384") {
		return &cipherSuiteTLS13{id: TLS_AES_256_GCM_SHA384, keyLen: 32, hash: crypto.SHA384}, "sha384"
	}
	return &cipherSuiteTLS13{id: TLS_AES_128_GCM_SHA256, keyLen: 16, hash: crypto.SHA256}, "sha256"
}

// verif: covers=done
func VerifH_C26_tls13_expand_label() {
	cryptoStubs()
	c, id := c26Suite13()
	secret := vr.Bytes("secret", vr.Int("slen", 0, 3))
	label := vr.String("label", vr.Int("llen", 0, 3))
	context := vr.Bytes("ctx", vr.Int("ctxlen", 0, 3))
	n := vr.Int("n", 0, 50)
	if vr.Tier() == 0 {
		n = []int{0, 1, 12, 16, 32, 33, 48, 49}[vr.Int("nq", 0, 7)]
	}
	vr.Assert(bytes.Equal(c.expandLabel(secret, label, context, n), refExpandLabel(id, secret, label, context, n)), "HKDF-Expand-Label per RFC 8446 §7.1")
	vr.Cover("done")
}

// verif: covers=done
func VerifH_C26_tls13_schedule() {
	cryptoStubs()
	c, id := c26Suite13()
	hs := hashSize(id)
	secret := vr.Bytes("secret", vr.Int("slen", 0, 3))
	msgs := vr.Bytes("msgs", vr.Int("mlen", 0, 2))
	tr := c.hash.New()
	tr.Write(msgs)
	th := vr.UF("H-"+id, hs, msgs)
	empty := vr.UF("H-"+id, hs, []byte{})

	vr.Assert(bytes.Equal(c.deriveSecret(secret, "derived", nil), refExpandLabel(id, secret, "derived", empty, hs)), "Derive-Secret with empty transcript")
	vr.Assert(bytes.Equal(c.deriveSecret(secret, "c hs traffic", tr), refExpandLabel(id, secret, "c hs traffic", th, hs)), "Derive-Secret with transcript")
	cur := vr.Bytes("cur", 2)
	vr.Assert(bytes.Equal(c.extract(secret, cur), cHKDFExtract(id, secret, cur)), "HKDF-Extract(salt=current, ikm=new)")
	vr.Assert(bytes.Equal(c.extract(nil, cur), cHKDFExtract(id, make([]byte, hs), cur)), "absent input keying material is a string of Hash.length zeros")
	vr.Assert(bytes.Equal(c.nextTrafficSecret(secret), refExpandLabel(id, secret, "traffic upd", nil, hs)), "traffic secret update per §7.2")
	key, iv := c.trafficKey(secret)
	vr.Assert(bytes.Equal(key, refExpandLabel(id, secret, "key", nil, c.keyLen)) && bytes.Equal(iv, refExpandLabel(id, secret, "iv", nil, 12)), "traffic keys per §7.3")
	fk := refExpandLabel(id, secret, "finished", nil, hs)
	vr.Assert(bytes.Equal(c.finishedHash(secret, tr), cHMAC(id, hs, fk, th)), "Finished verify_data per §4.4.4")
	label := vr.String("elabel", vr.Int("ellen", 0, 2))
	ectx := vr.Bytes("ectx", vr.Int("ectxlen", 0, 2))
	n := vr.Int("n", 0, 5)
	got, err := c.exportKeyingMaterial(secret, tr)(label, ectx, n)
	exp := refExpandLabel(id, secret, "exp master", th, hs)
	ds := refExpandLabel(id, exp, label, empty, hs)
	want := refExpandLabel(id, ds, "exporter", vr.UF("H-"+id, hs, append([]byte{}, ectx...)), n)
	vr.Assert(err == nil && bytes.Equal(got, want), "exporter per §7.5")
	vr.Cover("done")
}

// verif: covers=done
func VerifH_C26_split_premaster() {
	n := vr.Int("n", 0, 9)
	secret := vr.Bytes("secret", n)
	s1, s2 := splitPreMasterSecret(secret)
	half := (n + 1) / 2
	vr.Assert(len(s1) == half && len(s2) == half, "both halves have ceil(n/2) bytes")
	vr.Assert(bytes.Equal(s1, secret[:half]) && bytes.Equal(s2, secret[n-half:]), "S1 is the first half, S2 the last half (sharing the middle byte when n is odd)")
	vr.Cover("done")
}
