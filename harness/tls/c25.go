//go:build verif

package tls

import (
	"bytes"
	"errors"

	vr "github.com/zmap/zcrypto/internal/verifrt"
)

// ---------- ideal-primitive models (stated assumptions of C25/C31/C32) ----------

// mAEAD is an ideal AEAD: Seal = plaintext || tag, tag = UF(key, nonce, ad, plaintext).
type mAEAD struct {
	key       []byte
	lastNonce []byte // nonce seen by the last Seal/Open (for the nonce-construction claim)
	lastAD    []byte
}

func (a *mAEAD) NonceSize() int { return 12 }
func (a *mAEAD) Overhead() int  { return 16 }
func (a *mAEAD) tag(nonce, pt, ad []byte) []byte {
	return vr.UF("aead-tag", 16, a.key, nonce, ad, pt)
}
func (a *mAEAD) Seal(dst, nonce, plaintext, ad []byte) []byte {
	a.lastNonce = append([]byte{}, nonce...)
	a.lastAD = append([]byte{}, ad...)
	pt := append([]byte{}, plaintext...)
	out := append(dst, pt...)
	return append(out, a.tag(nonce, pt, ad)...)
}
func (a *mAEAD) Open(dst, nonce, ciphertext, ad []byte) ([]byte, error) {
	a.lastNonce = append([]byte{}, nonce...)
	a.lastAD = append([]byte{}, ad...)
	if len(ciphertext) < 16 {
		return nil, errors.New("model aead: short")
	}
	pt := append([]byte{}, ciphertext[:len(ciphertext)-16]...)
	if !bytes.Equal(a.tag(nonce, pt, ad), ciphertext[len(ciphertext)-16:]) {
		return nil, errors.New("model aead: bad tag")
	}
	return append(dst, pt...), nil
}

// mStream is an ideal stream cipher: keystream = UF(key, offset, length).
type mStream struct {
	key []byte
	off int
}

func (s *mStream) XORKeyStream(dst, src []byte) {
	for i := range src {
		ks := vr.UF("stream-ks", 1, s.key, []byte{byte(s.off >> 8), byte(s.off)})
		dst[i] = src[i] ^ ks[0]
		s.off++
	}
}

// mCBC is an ideal block mode: block i is xored with UF(key, iv, block counter).
// Encrypter and decrypter are the same involution, so decrypt∘encrypt = id for
// equal key/IV/counter.
type mCBC struct {
	key []byte
	iv  []byte
	bs  int
	cnt int
}

func (c *mCBC) BlockSize() int { return c.bs }
func (c *mCBC) SetIV(iv []byte) {
	c.iv = append([]byte{}, iv...)
}
func (c *mCBC) CryptBlocks(dst, src []byte) {
	for off := 0; off+c.bs <= len(src); off += c.bs {
		ks := vr.UF("cbc-ks", c.bs, c.key, c.iv, []byte{byte(c.cnt)})
		for i := 0; i < c.bs; i++ {
			dst[off+i] = src[off+i] ^ ks[i]
		}
		c.cnt++
	}
}

// mMAC is an ideal MAC with the hash.Hash interface.
type mMAC struct {
	key  []byte
	size int
	buf  []byte
}

func (m *mMAC) Write(p []byte) (int, error) { m.buf = append(m.buf, p...); return len(p), nil }
func (m *mMAC) Sum(b []byte) []byte {
	return append(b, vr.UF("mac", m.size, m.key, append([]byte{}, m.buf...))...)
}
func (m *mMAC) Reset()         { m.buf = nil }
func (m *mMAC) Size() int      { return m.size }
func (m *mMAC) BlockSize() int { return 64 }

// ---------- (i) extractPadding ----------

// verif: covers=good,bad
func VerifH_C25_extract_padding() {
	max := 24
	if vr.Tier() == 1 {
		max = 64
	}
	n := vr.Int("n", 0, max)
	if vr.Tier() == 1 && vr.Bool("long") {
		n = []int{255, 256, 257, 260}[vr.Int("longsize", 0, 3)]
	}
	payload := vr.Bytes("payload", n)
	toRemove, good := extractPadding(payload)
	if n == 0 {
		vr.Assert(toRemove == 0 && good == 0, "empty payload")
		vr.Cover("bad")
		return
	}
	p := int(payload[n-1])
	ok := p+1 <= n
	for i := 0; i < n; i++ {
		// the last p+1 bytes must all equal p (branch-free so the oracle adds no paths)
		ok = vr.And(ok, vr.Or(i > p, payload[n-1-i] == byte(p)))
	}
	if ok {
		vr.Assert(good == 255 && toRemove == p+1, "valid padding: removes padding length + 1")
		vr.Cover("good")
	} else {
		vr.Assert(good == 0 && toRemove == 1, "invalid padding: flagged, one byte removed")
		vr.Cover("bad")
	}
}

// verif: covers=done
func VerifH_C25_round_up_slice_for_append() {
	a := vr.Int("a", 0, 40)
	b := []int{8, 16, 20}[vr.Int("b", 0, 2)]
	r := roundUp(a, b)
	vr.Assert(r >= a && r < a+b && r%b == 0, "roundUp is the next multiple")
	c := vr.Int("cap", 0, 6)
	l := vr.Int("len", 0, c)
	n := vr.Int("n", 0, 4)
	in := make([]byte, l, c)
	for i := range in {
		in[i] = vr.U8("in")
	}
	head, tail := sliceForAppend(in, n)
	vr.Assert(len(head) == l+n && len(tail) == n && bytes.Equal(head[:l], in), "sliceForAppend extends by n and keeps the prefix")
	if n > 0 {
		tail[0] = 0xAA
		vr.Assert(head[l] == 0xAA, "tail aliases head")
	}
	vr.Cover("done")
}

// ---------- (ii)-(iv) record protection ----------

type c25Setup struct {
	out, in  *halfConn
	inner    *mAEAD // receiving side's inner AEAD when the class is an AEAD
	outInner *mAEAD
	class    int
	vers     uint16
	prefix   []byte
}

const (
	c25Null = iota
	c25Stream
	c25CBC10
	c25CBC11
	c25PrefixAEAD
	c25XorAEAD12
	c25XorAEAD13
	c25nClasses
)

func c25Make(class int) *c25Setup {
	s := &c25Setup{class: class, out: &halfConn{}, in: &halfConn{}}
	key := vr.Bytes("key", 2)
	mkey := vr.Bytes("mackey", 2)
	seq := vr.Bytes("seq", 8)
	vr.Assume(seq[0] != 0xff) // the documented wrap-around panic is out of scope
	copy(s.out.seq[:], seq)
	copy(s.in.seq[:], seq)
	s.vers = VersionTLS12
	switch class {
	case c25Null:
	case c25Stream:
		s.vers = []uint16{VersionTLS10, VersionTLS12}[vr.Int("v", 0, 1)]
		s.out.cipher, s.in.cipher = &mStream{key: key}, &mStream{key: key}
		s.out.mac, s.in.mac = &mMAC{key: mkey, size: 4}, &mMAC{key: mkey, size: 4}
	case c25CBC10, c25CBC11:
		bs := 8
		if vr.Tier() == 1 {
			bs = []int{8, 16}[vr.Int("bs", 0, 1)]
		}
		iv := vr.Bytes("iv", 2)
		s.vers = VersionTLS10
		if class == c25CBC11 {
			s.vers = []uint16{VersionTLS11, VersionTLS12}[vr.Int("v", 0, 1)]
		}
		s.out.cipher, s.in.cipher = &mCBC{key: key, iv: iv, bs: bs}, &mCBC{key: key, iv: iv, bs: bs}
		s.out.mac, s.in.mac = &mMAC{key: mkey, size: 4}, &mMAC{key: mkey, size: 4}
	case c25PrefixAEAD:
		s.prefix = vr.Bytes("prefix", 4)
		s.outInner, s.inner = &mAEAD{key: key}, &mAEAD{key: key}
		o, i := &prefixNonceAEAD{aead: s.outInner}, &prefixNonceAEAD{aead: s.inner}
		copy(o.nonce[:], s.prefix)
		copy(i.nonce[:], s.prefix)
		s.out.cipher, s.in.cipher = o, i
	case c25XorAEAD12, c25XorAEAD13:
		if class == c25XorAEAD13 {
			s.vers = VersionTLS13
		}
		s.prefix = vr.Bytes("mask", 12)
		s.outInner, s.inner = &mAEAD{key: key}, &mAEAD{key: key}
		o, i := &xorNonceAEAD{aead: s.outInner}, &xorNonceAEAD{aead: s.inner}
		copy(o.nonceMask[:], s.prefix)
		copy(i.nonceMask[:], s.prefix)
		s.out.cipher, s.in.cipher = o, i
	}
	s.out.version, s.in.version = s.vers, s.vers
	return s
}

type c25Rand struct{}

func (c25Rand) Read(p []byte) (int, error) {
	copy(p, vr.Bytes("rand", len(p)))
	return len(p), nil
}

// decrypt(encrypt(x)) = x, same type, both sequence numbers advanced once, and
// the nonce handed to the inner AEAD is the RFC construction.
// verif: covers=done
func VerifH_C25_record_roundtrip() {
	class := vr.Int("class", 0, c25nClasses-1)
	s := c25Make(class)
	max := 4
	if vr.Tier() == 1 {
		max = 8 // 18 ran for over half an hour at 9 GB
	}
	// A concrete zero filler after the symbolic bytes takes the total length across
	// the 255/256 boundary (high byte of the record length, multi-block CBC, MAC
	// input longer than one length byte) without 256 symbolic bytes.
	fills := []int{0, 253}
	// (a 1020-byte filler was tried in the thorough tier: the run was killed for memory)
	fill := fills[vr.Int("fill", 0, len(fills)-1)]
	lo := 0
	if fill > 0 {
		lo, max = 2, 3 // totals 255 and 256 (longer symbolic prefixes with the filler ran for 20+ minutes at 7 GB)
	}
	payload := append(vr.Bytes("payload", vr.Int("plen", lo, max)), make([]byte, fill)...)
	typ := recordType(vr.U8("type"))
	if s.vers == VersionTLS13 {
		vr.Assume(typ != 0) // inner content type 0 is padding by definition
	}
	seq0 := s.out.seq
	hdr := []byte{byte(typ), byte(s.vers >> 8), byte(s.vers), byte(len(payload) >> 8), byte(len(payload))}
	rec, err := s.out.encrypt(append([]byte{}, hdr...), payload, c25Rand{})
	vr.Assert(err == nil, "encrypt succeeds")
	vr.Assert(len(rec) >= recordHeaderLen && int(rec[3])<<8|int(rec[4]) == len(rec)-recordHeaderLen, "record length field is the body length")
	if class == c25PrefixAEAD || class == c25XorAEAD12 || class == c25XorAEAD13 {
		var want []byte
		if class == c25PrefixAEAD {
			want = append(append([]byte{}, s.prefix...), seq0[:]...) // explicit nonce = sequence number
		} else {
			want = append([]byte{}, s.prefix...)
			for i := 0; i < 8; i++ {
				want[4+i] ^= seq0[i]
			}
			x := s.out.cipher.(*xorNonceAEAD)
			vr.Assert(bytes.Equal(x.nonceMask[:], s.prefix), "nonce mask restored after Seal")
		}
		vr.Assert(bytes.Equal(s.outInner.lastNonce, want), "nonce passed to the AEAD is the RFC construction")
	}
	wire := append([]byte{}, rec...)
	pt, gotTyp, err := s.in.decrypt(wire)
	vr.Assert(err == nil, "decrypt of an untouched record succeeds")
	vr.Assert(bytes.Equal(pt, payload), "plaintext arrives intact")
	vr.Assert(gotTyp == typ, "record type arrives intact")
	if class != c25Null {
		vr.Assert(s.out.seq == s.in.seq, "both sequence numbers advanced equally")
		exp := seq0
		for i := 7; i >= 0; i-- {
			exp[i]++
			if exp[i] != 0 {
				break
			}
		}
		vr.Assert(s.in.seq == exp, "sequence number advanced exactly once")
	}
	vr.Cover("done")
}

// Integrity, structurally: on an arbitrary wire record the AEAD receiver accepts
// iff the trailing tag equals the ideal tag over exactly the RFC 5246 §6.2.3.3 /
// RFC 8446 §5.2 inputs, and then returns exactly the authenticated plaintext.
// verif: covers=accepted,rejected
func VerifH_C25_aead_decrypt_spec() {
	class := []int{c25PrefixAEAD, c25XorAEAD12, c25XorAEAD13}[vr.Int("class", 0, 2)]
	s := c25Make(class)
	max := 3
	if vr.Tier() == 1 {
		max = 6
	}
	extra := 16
	if class == c25PrefixAEAD {
		extra += 8
	}
	bodyLen := vr.Int("bodylen", 0, extra+max)
	body := vr.Bytes("body", bodyLen)
	typ := vr.U8("type")
	rec := append([]byte{typ, byte(s.vers >> 8), byte(s.vers), byte(bodyLen >> 8), byte(bodyLen)}, body...)
	seq0 := s.in.seq
	orig := append([]byte{}, rec...)
	pt, gotTyp, err := s.in.decrypt(rec)

	// reference
	if s.vers == VersionTLS13 && recordType(typ) == recordTypeChangeCipherSpec {
		vr.Assert(err == nil && bytes.Equal(pt, body), "TLS 1.3: change_cipher_spec passes through undecrypted")
		return
	}
	want := false
	var wantPT []byte
	ct := body
	var nonce []byte
	if class == c25PrefixAEAD {
		if len(body) >= 8 {
			nonce = append(append([]byte{}, s.prefix...), body[:8]...)
			ct = body[8:]
		} else {
			ct = nil
		}
	} else {
		nonce = append([]byte{}, s.prefix...)
		for i := 0; i < 8; i++ {
			nonce[4+i] ^= seq0[i]
		}
	}
	if len(ct) >= 16 && nonce != nil {
		p := ct[:len(ct)-16]
		var ad []byte
		if s.vers == VersionTLS13 {
			ad = orig[:5]
		} else {
			ad = append(append([]byte{}, seq0[:]...), orig[0], orig[1], orig[2], byte(len(p)>>8), byte(len(p)))
		}
		tag := vr.UF("aead-tag", 16, s.inner.key, nonce, ad, append([]byte{}, p...))
		if bytes.Equal(tag, ct[len(ct)-16:]) {
			want = true
			wantPT = p
		}
	}
	wantTyp := recordType(typ)
	if want && s.vers == VersionTLS13 {
		// inner plaintext: content || type || zero padding; outer type must be application_data
		if wantTyp != recordTypeApplicationData {
			want = false
		} else {
			i := len(wantPT) - 1
			for i >= 0 && wantPT[i] == 0 {
				i--
			}
			if len(wantPT) == 0 {
				// An authenticated record with an empty inner plaintext is passed on
				// as empty application data (same as upstream crypto/tls; RFC 8446 §5.4
				// would have it rejected). Not part of the claim either way.
			} else if i < 0 {
				want = false
			} else {
				wantTyp = recordType(wantPT[i])
				wantPT = wantPT[:i]
			}
		}
	}
	vr.Assert((err == nil) == want, "accepted iff the tag authenticates exactly the RFC inputs")
	if err == nil {
		vr.Assert(bytes.Equal(pt, wantPT) && gotTyp == wantTyp, "returns exactly the authenticated plaintext and type")
		vr.Cover("accepted")
	} else {
		vr.Assert(s.in.seq == seq0, "a rejected record does not advance the sequence number")
		vr.Cover("rejected")
	}
}

// MAC-then-encrypt receivers (stream and CBC): accepted iff padding is valid and
// the MAC equals the ideal MAC over seq || type || version || length || plaintext.
// verif: covers=accepted,rejected
func VerifH_C25_mac_decrypt_spec() {
	class := []int{c25Stream, c25CBC10, c25CBC11}[vr.Int("class", 0, 2)]
	s := c25Make(class)
	bs := 1
	if c, ok := s.in.cipher.(*mCBC); ok {
		bs = c.bs
	}
	var bodyLen int
	if bs == 1 {
		bodyLen = vr.Int("bodylen", 0, 7)
	} else {
		bodyLen = bs * vr.Int("blocks", 0, 2) // three 16-byte blocks left the solver undecided within the cap
		if vr.Bool("ragged") {
			bodyLen += 1
		}
	}
	body := vr.Bytes("body", bodyLen)
	typ := vr.U8("type")
	rec := append([]byte{typ, byte(s.vers >> 8), byte(s.vers), byte(bodyLen >> 8), byte(bodyLen)}, body...)
	seq0 := s.in.seq
	var iv0 []byte
	key := s.in.mac.(*mMAC).key
	if c, ok := s.in.cipher.(*mCBC); ok {
		iv0 = append([]byte{}, c.iv...)
	}
	pt, gotTyp, err := s.in.decrypt(rec)

	// reference decryption with the same ideal primitives
	want := true
	var dec []byte
	explicit := 0
	if bs > 1 && s.vers >= VersionTLS11 {
		explicit = bs
	}
	if bs == 1 {
		dec = make([]byte, len(body))
		for i := range body {
			ks := vr.UF("stream-ks", 1, s.in.cipher.(*mStream).key, []byte{byte(i >> 8), byte(i)})
			dec[i] = body[i] ^ ks[0]
		}
	} else {
		minPayload := explicit + roundUpRef(4+1, bs)
		if bodyLen%bs != 0 || bodyLen < minPayload {
			want = false
		} else {
			iv := iv0
			ct := body
			if explicit > 0 {
				iv = body[:explicit]
				ct = body[explicit:]
			}
			dec = make([]byte, len(ct))
			for b := 0; b*bs < len(ct); b++ {
				ks := vr.UF("cbc-ks", bs, s.in.cipher.(*mCBC).key, append([]byte{}, iv...), []byte{byte(b)})
				for i := 0; i < bs; i++ {
					dec[b*bs+i] = ct[b*bs+i] ^ ks[i]
				}
			}
		}
	}
	var wantPT []byte
	if want && len(dec) < 4 {
		want = false // shorter than the MAC
	}
	if want {
		padLen := 0
		good := true
		if bs > 1 {
			p := int(dec[len(dec)-1])
			good = p+1 <= len(dec)
			for i := 0; i < len(dec); i++ {
				good = vr.And(good, vr.Or(i > p, dec[len(dec)-1-i] == byte(p)))
			}
			padLen = vr.IteInt(good, p+1, 1) // a bad padding is only ever rejected; keep indices in range
		}
		n := len(dec) - 4 - padLen
		if n < 0 {
			// padding overlapping the MAC: the receiver clamps the plaintext length to 0
			// and still demands a valid MAC over (seq, header, empty plaintext)
			n = 0
		}
		{
			wantPT = dec[:n]
			hdr := []byte{typ, byte(s.vers >> 8), byte(s.vers), byte(n >> 8), byte(n)}
			data := append(append(append([]byte{}, seq0[:]...), hdr...), wantPT...)
			mac := vr.UF("mac", 4, key, data)
			want = vr.And(good, vr.BytesEq(mac, dec[n:n+4]))
		}
	}
	vr.Assert((err == nil) == want, "accepted iff padding is valid and the MAC covers seq, header and plaintext")
	if err == nil {
		vr.Assert(bytes.Equal(pt, wantPT) && gotTyp == recordType(typ), "returns exactly the authenticated plaintext")
		vr.Cover("accepted")
	} else {
		vr.Cover("rejected")
	}
}

func roundUpRef(a, b int) int {
	for a%b != 0 {
		a++
	}
	return a
}

// C25 (write path): whatever the connection's traffic history, the payload size chosen
// for the next record is between 1 and 2^14 bytes (RFC 8446 §5.1 / RFC 5246 §6.2.1), so the
// peer never has to refuse a record for its size.
// verif: covers=done
func VerifH_C25_max_payload_size_for_write() {
	class := vr.Int("class", 0, c25nClasses-1)
	s := c25Make(class)
	c := &Conn{config: &Config{DynamicRecordSizingDisabled: vr.Bool("sizingDisabled")}, vers: s.vers}
	c.out = *s.out
	c.bytesSent = int64(vr.U32("bytesSent"))
	c.packetsSent = int64(vr.U16("packetsSent"))
	typ := recordType(vr.U8("type"))
	before := c.packetsSent
	n := c.maxPayloadSizeForWrite(typ)
	vr.Assert(n >= 1 && n <= maxPlaintext, "the next record carries between 1 and 2^14 plaintext bytes")
	vr.Assert(c.packetsSent == before || c.packetsSent == before+1, "the packet counter advances by at most one")
	vr.Cover("done")
}
