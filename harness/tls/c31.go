//go:build verif

package tls

import (
	"bytes"
	"crypto/cipher"
	"time"

	vr "github.com/zmap/zcrypto/internal/verifrt"
)

type mBlock struct{ key []byte }

func (b *mBlock) BlockSize() int          { return 16 }
func (b *mBlock) Encrypt(dst, src []byte) { panic("model block: raw Encrypt not modelled") }
func (b *mBlock) Decrypt(dst, src []byte) { panic("model block: raw Decrypt not modelled") }

// mCTR is an ideal counter mode: keystream byte i = UF(key, iv, i).
type mCTR struct {
	key, iv []byte
	pos     int
}

func (s *mCTR) XORKeyStream(dst, src []byte) {
	for i := range src {
		ks := vr.UF("ctr-ks", 1, s.key, s.iv, []byte{byte(s.pos >> 8), byte(s.pos)})
		dst[i] = src[i] ^ ks[0]
		s.pos++
	}
}

func c31Stubs() {
	cryptoStubs()
	vr.Stub("crypto/aes.NewCipher", func(key []byte) (cipher.Block, error) {
		return &mBlock{key: append([]byte{}, key...)}, nil
	})
	vr.Stub("crypto/cipher.NewCTR", func(b cipher.Block, iv []byte) cipher.Stream {
		return &mCTR{key: b.(*mBlock).key, iv: append([]byte{}, iv...)}
	})
}

func c31Key(label string) ticketKey {
	var k ticketKey
	copy(k.keyName[:], vr.Bytes(label+"-name", ticketKeyNameLen))
	copy(k.aesKey[:2], vr.Bytes(label+"-aes", 2))
	copy(k.hmacKey[:2], vr.Bytes(label+"-hmac", 2))
	return k
}

type c31Rand struct{}

func (c31Rand) Read(p []byte) (int, error) {
	copy(p, vr.Bytes("rand", len(p)))
	return len(p), nil
}

// refDecryptTicket: accept iff the MAC over everything before it is valid under the
// first key whose name matches; plaintext is the CTR decryption.
func refDecryptTicket(keys []ticketKey, enc []byte) (pt []byte, old bool, ok bool) {
	if len(enc) < 16+16+32 {
		return nil, false, false
	}
	idx := -1
	for i := len(keys) - 1; i >= 0; i-- {
		if bytes.Equal(enc[:16], keys[i].keyName[:]) {
			idx = i
		}
	}
	if idx < 0 {
		return nil, false, false
	}
	k := keys[idx]
	if !bytes.Equal(cHMAC("sha256", 32, k.hmacKey[:], enc[:len(enc)-32]), enc[len(enc)-32:]) {
		return nil, false, false
	}
	ct := enc[32 : len(enc)-32]
	pt = make([]byte, len(ct))
	for i := range ct {
		ks := vr.UF("ctr-ks", 1, k.aesKey[:], append([]byte{}, enc[16:32]...), []byte{byte(i >> 8), byte(i)})
		pt[i] = ct[i] ^ ks[0]
	}
	return pt, idx > 0, true
}

// decryptTicket on arbitrary bytes: authentic tickets only.
// verif: covers=accepted,rejected
func VerifH_C31_decrypt_ticket_spec() {
	c31Stubs()
	nk := vr.Int("nkeys", 0, 2)
	c := &Conn{}
	for i := 0; i < nk; i++ {
		c.ticketKeys = append(c.ticketKeys, c31Key("key"))
	}
	n := []int{0, 63, 64, 65, 66}[vr.Int("size", 0, 4)]
	enc := vr.Bytes("ticket", n)
	pt, old := c.decryptTicket(append([]byte{}, enc...))
	wpt, wold, wok := refDecryptTicket(c.ticketKeys, enc)
	if wok {
		vr.Assert(pt != nil && bytes.Equal(pt, wpt) && old == wold, "authentic ticket: decrypted under the first key whose name matches")
		vr.Cover("accepted")
	} else {
		vr.Assert(pt == nil && !old, "anything else is rejected")
		vr.Cover("rejected")
	}
}

// verif: covers=done
func VerifH_C31_ticket_roundtrip() {
	c31Stubs()
	c := &Conn{config: &Config{Rand: c31Rand{}}}
	k0, k1 := c31Key("k0"), c31Key("k1")
	vr.Assume(k0.keyName != k1.keyName)
	c.ticketKeys = []ticketKey{k0, k1}
	state := vr.Bytes("state", vr.Int("slen", 0, 3))
	enc, err := c.encryptTicket(state)
	vr.Assert(err == nil && len(enc) == 64+len(state), "encryptTicket succeeds")
	pt, old := c.decryptTicket(enc)
	vr.Assert(bytes.Equal(pt, state) && pt != nil && !old, "current key: decrypts to the state, not flagged old")
	// the same ticket presented after one rotation (issuing key is now the older key)
	c2 := &Conn{ticketKeys: []ticketKey{c31Key("new"), k0}}
	vr.Assume(c2.ticketKeys[0].keyName != k0.keyName)
	pt, old = c2.decryptTicket(enc)
	vr.Assert(bytes.Equal(pt, state) && pt != nil && old, "older key: decrypts and is flagged for renewal")
	// after the issuing key is rotated out
	c3 := &Conn{ticketKeys: []ticketKey{c2.ticketKeys[0], k1}}
	pt, _ = c3.decryptTicket(enc)
	vr.Assert(pt == nil, "rotated-out key: rejected")
	// any single-byte modification is rejected unless the ideal MAC collides: with the
	// MAC function uninterpreted, rejection is implied by VerifH_C31_decrypt_ticket_spec.
	vr.Cover("done")
}

// TLS 1.2 resumption decision.
// verif: covers=resumed,refused
func VerifH_C31_check_for_resumption() {
	c31Stubs()
	// Instants are taken from a boundary set instead of being symbolic: time.Time
	// arithmetic multiplies by 10^9, which no back end decides within the cap.
	const now = int64(1700000000)
	age := []int64{0, 1, 604799, 604800, 604801, 1700000000, -1}[vr.Pick(vr.Int("age", 0, 6))]
	cfg := &Config{Rand: c31Rand{}, SessionTicketsDisabled: vr.Bool("disabled"), ClientAuth: ClientAuthType(vr.Int("clientAuth", 0, 4)),
		Time:         func() time.Time { return time.Unix(now, 0) },
		CipherSuites: []uint16{TLS_RSA_WITH_AES_128_CBC_SHA, TLS_ECDHE_RSA_WITH_AES_128_GCM_SHA256}}
	vers := []uint16{VersionTLS10, VersionTLS11, VersionTLS12}[vr.Int("vers", 0, 2)]
	c := &Conn{config: cfg, vers: vers, ticketKeys: []ticketKey{c31Key("k0")}}
	st := &sessionState{vers: []uint16{VersionTLS10, VersionTLS11, VersionTLS12}[vr.Int("svers", 0, 2)],
		cipherSuite:  []uint16{TLS_RSA_WITH_AES_128_CBC_SHA, TLS_ECDHE_RSA_WITH_AES_128_GCM_SHA256, TLS_RSA_WITH_RC4_128_SHA, 0x1234}[vr.Int("suite", 0, 3)],
		createdAt:    uint64(now - age),
		masterSecret: vr.Bytes("ms", 1)}
	if vr.Bool("hasCerts") {
		st.certificates = [][]byte{vr.Bytes("cert", 1)}
	}
	ticket, err := c.encryptTicket(st.marshal())
	vr.Assert(err == nil, "ticket issued")
	authentic := true
	if vr.Bool("tamper") {
		i := vr.Int("pos", 0, len(ticket)-1)
		d := vr.U8("delta")
		vr.Assume(d != 0)
		for j := range ticket {
			if j == i { // concrete position per path
				ticket[j] ^= d
			}
		}
		authentic = false
		// A modified ticket can only be accepted through a collision of the ideal MAC:
		// exclude exactly that (stated assumption), before the code under test runs.
		vr.Assume(!bytes.Equal(cHMAC("sha256", 32, c.ticketKeys[0].hmacKey[:], ticket[:len(ticket)-32]), ticket[len(ticket)-32:]))
	}
	offered := c30u16s("offered", 0, 2)
	hs := &serverHandshakeState{c: c, clientHello: &clientHelloMsg{sessionTicket: ticket, cipherSuites: offered},
		ecdheOk: true, ecSignOk: true, rsaDecryptOk: true, rsaSignOk: true}
	got := hs.checkForResumption()

	if !authentic {
		vr.Assert(!got, "a modified ticket never resumes")
		vr.Cover("refused")
		return
	}
	want := !cfg.SessionTicketsDisabled
	want = want && now-int64(st.createdAt) <= int64(maxSessionTicketLifetime/time.Second)
	want = want && st.vers == vers
	off := false
	for _, id := range offered {
		if id == st.cipherSuite {
			off = true
		}
	}
	want = want && off
	supported := st.cipherSuite == TLS_RSA_WITH_AES_128_CBC_SHA || (st.cipherSuite == TLS_ECDHE_RSA_WITH_AES_128_GCM_SHA256 && vers >= VersionTLS12)
	want = want && supported
	need := cfg.ClientAuth == RequireAnyClientCert || cfg.ClientAuth == RequireAndVerifyClientCert
	has := len(st.certificates) != 0
	want = want && !(need && !has) && !(has && cfg.ClientAuth == NoClientCert)
	vr.Assert(got == want, "resumes exactly when the ticket is authentic, fresh, same version, suite offered and supported, client-cert rules met")
	if got {
		vr.Assert(hs.sessionState.vers == st.vers && hs.sessionState.cipherSuite == st.cipherSuite && bytes.Equal(hs.sessionState.masterSecret, st.masterSecret), "resumes with the original session's version, suite and secret")
		vr.Cover("resumed")
	} else {
		vr.Cover("refused")
	}
}
