//go:build verif

package tls

import (
	"bytes"
	"time"

	vr "github.com/zmap/zcrypto/internal/verifrt"
)

type c29Rand struct{ got *[]byte }

func (r c29Rand) Read(p []byte) (int, error) {
	b := vr.Bytes("rand", len(p))
	copy(p, b)
	*r.got = append(*r.got, b...)
	return len(p), nil
}

// c29Ext builds one built-in extension with symbolic contents and returns it with
// its reference encoding (RFC 6066/7301/4492/5077/5246 layouts) and validity.
func c29Ext(kind int) (ext ClientExtension, ref []byte, valid bool) {
	valid = true
	hdr := func(typ uint16, body []byte) []byte {
		return append([]byte{byte(typ >> 8), byte(typ), byte(len(body) >> 8), byte(len(body))}, body...)
	}
	switch kind {
	case 0:
		return &NullExtension{}, nil, true
	case 1: // SNI with one host name
		host := vr.Bytes("host", vr.Int("hostlen", 1, 3))
		vr.Assume(host[len(host)-1] != '.') // documented: SNI names carry no trailing dot
		body := append([]byte{0, byte(len(host) + 3), 0, 0, byte(len(host))}, host...)
		return &SNIExtension{Domains: []string{string(host)}}, hdr(extensionServerName, body), true
	case 2: // ALPN
		var protos []string
		var list []byte
		for _, p := range c30bss("alpn", 1, 2, 1, 2) {
			protos = append(protos, string(p))
			list = append(append(list, byte(len(p))), p...)
		}
		body := append([]byte{byte(len(list) >> 8), byte(len(list))}, list...)
		return &ALPNExtension{Protocols: protos}, hdr(extensionALPN, body), true
	case 3:
		return &SecureRenegotiationExtension{}, hdr(extensionRenegotiationInfo, []byte{0}), true
	case 4:
		return &ExtendedMasterSecretExtension{}, hdr(extensionExtendedMasterSecret, nil), true
	case 5:
		return &StatusRequestExtension{}, hdr(extensionStatusRequest, []byte{1, 0, 0, 0, 0}), true
	case 6:
		return &SCTExtension{}, hdr(extensionSCT, nil), true
	case 7: // supported curves
		var curves []CurveID
		var list []byte
		for _, c := range c30u16s("curve", 1, 2) {
			curves = append(curves, CurveID(c))
			list = append(list, byte(c>>8), byte(c))
			if !(CurveID(c) == X25519 || CurveID(c) == CurveP256 || CurveID(c) == CurveP384 || CurveID(c) == CurveP521) {
				valid = false
			}
		}
		body := append([]byte{byte(len(list) >> 8), byte(len(list))}, list...)
		return &SupportedCurvesExtension{Curves: curves}, hdr(extensionSupportedCurves, body), valid
	case 8: // point formats
		formats := c30bs("fmt", 1, 2)
		for _, f := range formats {
			if f != 0 {
				valid = false
			}
		}
		body := append([]byte{byte(len(formats))}, formats...)
		return &PointFormatExtension{Formats: formats}, hdr(extensionSupportedPoints, body), valid
	case 9: // session ticket
		t := c30bs("ticket", 0, 3)
		return &SessionTicketExtension{Ticket: t}, hdr(extensionSessionTicket, t), true
	default: // signature algorithms
		algs := c30u16s("sigalg", 1, 2)
		var list []byte
		for _, a := range algs {
			list = append(list, byte(a>>8), byte(a))
			found := false
			for _, s := range supportedSKXSignatureAlgorithms {
				if s.Hash == uint8(a>>8) && s.Signature == uint8(a) {
					found = true
				}
			}
			if !found {
				valid = false
			}
		}
		body := append([]byte{byte(len(list) >> 8), byte(len(list))}, list...)
		return &SignatureAlgorithmExtension{SignatureAndHashes: algs}, hdr(extensionSignatureAlgorithms, body), valid
	}
}

// C29: the fingerprinted ClientHello is the configured values in the RFC 5246
// §7.4.1.2 layout, and parses back to them.
// verif: covers=sent,refused
func VerifH_C29_fingerprint_hello_fixed_part() { c29Hello(true) }

// verif: covers=sent,refused maxpaths_t=1500000
func VerifH_C29_fingerprint_hello_extensions() { c29Hello(false) }

func c29Hello(fixedPart bool) {
	f := &ClientFingerprintConfiguration{HandshakeVersion: vr.U16("vers")}
	var drawn []byte
	cfg := &Config{Rand: c29Rand{&drawn}, ForceSuites: vr.Bool("forceSuites")}
	fixedRandom := true
	if fixedPart {
		fixedRandom = vr.Bool("fixedRandom")
	}
	if fixedRandom {
		f.ClientRandom = vr.Bytes("random", 32)
	} else {
		f.ClientRandom = vr.Bytes("shortrandom", vr.Int("rlen", 0, 1)) // not 32 bytes: ignored
		f.InsertTimestamp = vr.Bool("timestamp")
	}
	if fixedPart {
		f.SessionID = c30bs("sid", 0, 3)
	}
	pool := []uint16{TLS_RSA_WITH_AES_128_CBC_SHA, TLS_ECDHE_RSA_WITH_AES_128_GCM_SHA256, 0x1234}
	ns := 1
	if fixedPart {
		ns = vr.Int("nsuites", 0, 2+vr.Tier())
	}
	valid := true
	for i := 0; i < ns; i++ {
		s := pool[vr.Pick(vr.Int("suite", 0, 2))]
		f.CipherSuites = append(f.CipherSuites, s)
		if s == 0x1234 && !cfg.ForceSuites {
			valid = false
		}
	}
	if fixedPart && vr.Bool("manySuites") {
		// a concrete filler takes the list to 127..129 suites, across the point where its
		// byte length no longer fits one octet
		for i := 0; i < 127; i++ {
			f.CipherSuites = append(f.CipherSuites, TLS_RSA_WITH_AES_128_CBC_SHA)
		}
	}
	f.CompressionMethods = []uint8{0}
	if fixedPart {
		f.CompressionMethods = c30bs("comp", 0, 2)
	}
	if !(len(f.CompressionMethods) == 1 && f.CompressionMethods[0] == 0) {
		valid = false
	}
	// empty ALPN / curve / point-format / signature-algorithm lists are degenerate
	// configurations outside the claim (their encodings are not parseable)
	ne := 0
	if !fixedPart {
		ne = vr.Int("next", 0, 1+vr.Tier())
	}
	lastKind := -1
	var extRef []byte
	extValid := true
	for i := 0; i < ne; i++ {
		kind := vr.Pick(vr.Int("extkind", 0, 10))
		vr.Assume(kind > lastKind) // each extension type at most once (a repeated type is a degenerate configuration)
		lastKind = kind
		e, ref, ok := c29Ext(kind)
		f.Extensions = append(f.Extensions, e)
		extRef = append(extRef, ref...)
		if !ok {
			extValid = false
		}
	}
	hello, err := f.marshal(cfg)
	if !valid || !extValid {
		vr.Assert(err != nil, "unimplemented suites / compression / curves / formats / signature algorithms are refused")
		vr.Cover("refused")
		return
	}
	vr.Assert(err == nil, "a fully implemented configuration is sent")

	// reference layout
	var random []byte
	if fixedRandom {
		random = f.ClientRandom
	} else if f.InsertTimestamp {
		vr.Assert(len(drawn) == 28, "28 fresh random bytes after the timestamp")
		random = append(append([]byte{}, hello[6:10]...), drawn...)
	} else {
		vr.Assert(len(drawn) == 32, "32 fresh random bytes")
		random = drawn
	}
	body := []byte{byte(f.HandshakeVersion >> 8), byte(f.HandshakeVersion)}
	body = append(body, random...)
	body = append(append(body, byte(len(f.SessionID))), f.SessionID...)
	body = append(body, byte(2*len(f.CipherSuites)>>8), byte(2*len(f.CipherSuites)))
	for _, s := range f.CipherSuites {
		body = append(body, byte(s>>8), byte(s))
	}
	body = append(append(body, byte(len(f.CompressionMethods))), f.CompressionMethods...)
	if len(extRef) > 0 {
		body = append(append(body, byte(len(extRef)>>8), byte(len(extRef))), extRef...)
	}
	want := append([]byte{typeClientHello, byte(len(body) >> 16), byte(len(body) >> 8), byte(len(body))}, body...)
	vr.Assert(bytes.Equal(hello, want), "ClientHello bytes are the configured values in the RFC layout, extensions concatenated in order")

	// and the ClientHello parser reads the same values back
	var m clientHelloMsg
	vr.Assert(m.unmarshal(hello), "the ClientHello parser accepts it")
	vr.Assert(m.vers == f.HandshakeVersion && bytes.Equal(m.random, random) && bytes.Equal(m.sessionId, f.SessionID) &&
		c30eqU16s(m.cipherSuites, f.CipherSuites) && bytes.Equal(m.compressionMethods, f.CompressionMethods), "parsed fixed part equals the configuration")
	vr.Cover("sent")
}

// C29: the timestamp prefix is the current time (gmt_unix_time, RFC 5246 §7.4.1.2).
// verif: covers=done
func VerifH_C29_timestamp_prefix() {
	now := int64(vr.U32("now")) // any instant until 2106
	vr.Stub("time.Now", func() time.Time { return time.Unix(now, 0) })
	var drawn []byte
	cfg := &Config{Rand: c29Rand{&drawn}}
	f := &ClientFingerprintConfiguration{HandshakeVersion: VersionTLS12, InsertTimestamp: true, CompressionMethods: []uint8{0}}
	hello, err := f.marshal(cfg)
	vr.Assert(err == nil, "sent")
	ts := uint32(hello[6])<<24 | uint32(hello[7])<<16 | uint32(hello[8])<<8 | uint32(hello[9])
	vr.Assert(ts == uint32(now), "the first four random bytes are the current Unix time")
	vr.Assert(bytes.Equal(hello[10:38], drawn) && len(drawn) == 28, "followed by 28 fresh random bytes")
	vr.Cover("done")
}
