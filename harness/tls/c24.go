//go:build verif

package tls

import (
	"bytes"

	"crypto"
	vr "github.com/zmap/zcrypto/internal/verifrt"
	jsonKeys "github.com/zmap/zcrypto/json"
	"github.com/zmap/zcrypto/rsa"
	"io"
	"math/big"
)

func c24Version(label string) uint16 {
	v := vr.U16(label)
	vr.Assume(v == 0 || (v >= 0x0300 && v <= 0x0305))
	return v
}

func c24Supports(min, max, v uint16) bool {
	return (min == 0 || v >= min) && (max == 0 || v <= max)
}

var c24All = []uint16{VersionTLS13, VersionTLS12, VersionTLS11, VersionTLS10}

// C24: version negotiation picks the highest version both sides support, and
// fails exactly when they share none.
// verif: covers=agreed,none
func VerifH_C24_version_negotiation() {
	srv := &Config{MinVersion: c24Version("smin"), MaxVersion: c24Version("smax")}
	var clientVersions []uint16
	cmin, cmax := c24Version("cmin"), c24Version("cmax")
	legacy := vr.Bool("legacyClient")
	if legacy {
		// a client without the supported_versions extension: versions <= its hello version
		cmin = 0
		clientVersions = supportedVersionsFromMax(cmax)
		if cmax == 0 {
			clientVersions = nil
		}
	} else {
		clientVersions = (&Config{MinVersion: cmin, MaxVersion: cmax}).supportedVersions()
	}
	got, ok := srv.mutualVersion(clientVersions)
	var want uint16
	for _, v := range c24All { // descending
		clientHas := c24Supports(cmin, cmax, v)
		if legacy {
			clientHas = cmax != 0 && v <= cmax
		}
		if want == 0 && clientHas && c24Supports(srv.MinVersion, srv.MaxVersion, v) {
			want = v
		}
	}
	vr.Assert(ok == (want != 0), "a version is chosen iff the intersection is non-empty")
	vr.Assert(got == want, "the chosen version is the highest shared one")
	// min/max helpers
	var smax, smin uint16
	for _, v := range c24All {
		if c24Supports(srv.MinVersion, srv.MaxVersion, v) {
			if smax == 0 {
				smax = v
			}
			smin = v
		}
	}
	vr.Assert(srv.maxSupportedVersion() == smax && srv.minSupportedVersion() == smin, "min/max supported version")
	if ok {
		vr.Cover("agreed")
	} else {
		vr.Cover("none")
	}
}

func c24SendAlertStub() {
	vr.Stub("(*github.com/zmap/zcrypto/tls.Conn).sendAlert", func(c *Conn, a Alert) error { return a })
}

var c24Pool = []uint16{TLS_RSA_WITH_AES_128_CBC_SHA, TLS_ECDHE_RSA_WITH_AES_128_GCM_SHA256, TLS_ECDHE_ECDSA_WITH_AES_128_GCM_SHA256,
	TLS_RSA_WITH_AES_128_GCM_SHA256, TLS_ECDHE_RSA_WITH_AES_128_CBC_SHA, 0x1234}

func c24Suites(label string, max int) []uint16 {
	n := vr.Int(label+"#", 0, max)
	var out []uint16
	for i := 0; i < n; i++ {
		out = append(out, c24Pool[vr.Pick(vr.Int(label, 0, len(c24Pool)-1))])
	}
	return out
}

// C24: the server picks a suite both sides enabled, usable with its key and the
// version, first in the documented preference order.
// verif: covers=picked,none
func VerifH_C24_cipher_suite_selection() {
	c24SendAlertStub()
	hasAESGCMHardwareSupport = true // explicit lists; no AES-GCM deprioritisation (stated bound)
	max := 2                        // three suites per side exceed 200000 paths in either tier
	client := c24Suites("client", max)
	server := c24Suites("server", max)
	if server == nil {
		server = []uint16{}
	}
	cfg := &Config{CipherSuites: server, PreferServerCipherSuites: vr.Bool("preferServer")}
	vers := []uint16{VersionTLS10, VersionTLS11, VersionTLS12}[vr.Pick(vr.Int("vers", 0, 2))]
	hs := &serverHandshakeState{c: &Conn{config: cfg, vers: vers}, clientHello: &clientHelloMsg{cipherSuites: client, vers: vers},
		ecdheOk: vr.Bool("ecdheOk"), ecSignOk: vr.Bool("ecSignOk"), rsaSignOk: vr.Bool("rsaSignOk"), rsaDecryptOk: vr.Bool("rsaDecryptOk")}
	err := hs.pickCipherSuite()

	usable := func(id uint16) bool {
		var s *cipherSuite
		for _, cs := range implementedCipherSuites {
			if cs.id == id && s == nil {
				s = cs // the table lists some ids twice; the first entry is the one in force
			}
		}
		if s == nil {
			return false
		}
		if s.flags&suiteECDHE != 0 {
			if !hs.ecdheOk {
				return false
			}
			if s.flags&suiteECSign != 0 {
				if !hs.ecSignOk {
					return false
				}
			} else if !hs.rsaSignOk {
				return false
			}
		} else if !hs.rsaDecryptOk {
			return false
		}
		return !(vers < VersionTLS12 && s.flags&suiteTLS12 != 0)
	}
	in := func(id uint16, l []uint16) bool {
		for _, x := range l {
			if x == id {
				return true
			}
		}
		return false
	}
	pref, other := client, server
	if cfg.PreferServerCipherSuites {
		pref, other = server, client
	}
	var want uint16
	found := false
	for _, id := range pref {
		if !found && usable(id) && in(id, other) {
			want, found = id, true
		}
	}
	if found {
		vr.Assert(err == nil && hs.suite != nil && hs.suite.id == want && hs.c.cipherSuite == want, "first mutually enabled, usable suite in preference order")
		vr.Cover("picked")
	} else {
		vr.Assert(err != nil && hs.suite == nil, "no common usable suite: handshake failure")
		vr.Cover("none")
	}
}

// C24 with the server's default suite list (Config.CipherSuites == nil): the documented
// rule then also depends on the AES-GCM hardware heuristics — with server preference,
// a client whose first known suite is not AES-GCM gets the other AEAD suites ahead of
// AES-GCM; with client preference, a server without AES-GCM hardware does the same to
// the client's list. The client offers two suites out of {ECDHE-RSA-AES128-GCM,
// ECDHE-RSA-CHACHA20, ECDHE-RSA-AES128-CBC, RSA-AES128-CBC}; all key exchanges usable.
// verif: covers=picked,none
func VerifH_C24_cipher_suite_selection_default_list() {
	c24SendAlertStub()
	hw := vr.Bool("serverHasAESGCMHardware")
	hasAESGCMHardwareSupport = hw
	pool := []uint16{TLS_ECDHE_RSA_WITH_AES_128_GCM_SHA256, TLS_ECDHE_RSA_WITH_CHACHA20_POLY1305, TLS_ECDHE_RSA_WITH_AES_128_CBC_SHA, TLS_RSA_WITH_AES_128_CBC_SHA}
	var client []uint16
	for i, n := 0, vr.Int("client#", 0, 2); i < n; i++ {
		client = append(client, pool[vr.Pick(vr.Int("client", 0, 3))])
	}
	cfg := &Config{PreferServerCipherSuites: vr.Bool("preferServer")}
	hs := &serverHandshakeState{c: &Conn{config: cfg, vers: VersionTLS12}, clientHello: &clientHelloMsg{cipherSuites: client, vers: VersionTLS12},
		ecdheOk: true, ecSignOk: true, rsaSignOk: true, rsaDecryptOk: true}
	err := hs.pickCipherSuite()
	if len(client) == 0 {
		vr.Assert(err != nil, "nothing offered: handshake failure")
		vr.Cover("none")
		return
	}
	isGCM := func(id uint16) bool { return id == TLS_ECDHE_RSA_WITH_AES_128_GCM_SHA256 }
	isChaCha := func(id uint16) bool { return id == TLS_ECDHE_RSA_WITH_CHACHA20_POLY1305 }
	var want uint16
	if cfg.PreferServerCipherSuites {
		// server order: the AEAD suites lead the default list (AES-GCM first when the server
		// has the hardware, ChaCha20 first otherwise), then ECDHE-CBC, then RSA-CBC; AES-GCM
		// drops behind ChaCha20 when the client's first suite is not AES-GCM
		gcmFirst := hw && isGCM(client[0])
		rank := func(id uint16) int {
			switch {
			case isGCM(id):
				if gcmFirst {
					return 0
				}
				return 1
			case isChaCha(id):
				if gcmFirst {
					return 1
				}
				return 0
			case id == TLS_ECDHE_RSA_WITH_AES_128_CBC_SHA:
				return 2
			}
			return 3
		}
		want = client[0]
		for _, id := range client {
			if rank(id) < rank(want) {
				want = id
			}
		}
	} else {
		// client order, except that a server without AES-GCM hardware moves an AES-GCM suite
		// behind an adjacent other AEAD suite
		want = client[0]
		if !hw && len(client) == 2 && isGCM(client[0]) && isChaCha(client[1]) {
			want = client[1]
		}
	}
	vr.Assert(err == nil && hs.suite != nil && hs.suite.id == want, "the suite the documented preference rule selects")
	vr.Cover("picked")
}

type c24Rand struct{}

func (c24Rand) Read(p []byte) (int, error) {
	copy(p, vr.Bytes("rand", len(p)))
	return len(p), nil
}

// C24: downgrade sentinel, ALPN and compression in processClientHello.
// verif: covers=sentinel12,sentinel11,nosentinel,nocompression
func VerifH_C24_process_client_hello() {
	c24SendAlertStub()
	srvMax := []uint16{0, VersionTLS10, VersionTLS11, VersionTLS12, VersionTLS13}[vr.Pick(vr.Int("smax", 0, 4))]
	vers := []uint16{VersionTLS10, VersionTLS11, VersionTLS12}[vr.Pick(vr.Int("vers", 0, 2))]
	var protos []string
	for _, p := range c30bss("nextproto", 0, 2, 1, 1) {
		protos = append(protos, string(p))
	}
	cfg := &Config{MaxVersion: srvMax, Rand: c24Rand{}, NextProtos: protos, Certificates: []Certificate{{}}}
	maxVers := cfg.maxSupportedVersion()
	vr.Assume(vers <= maxVers) // the negotiated version is one the server supports
	ch := &clientHelloMsg{vers: vers, compressionMethods: c30bs("comp", 0, 2)}
	for _, p := range c30bss("alpn", 0, 2, 1, 1) {
		ch.alpnProtocols = append(ch.alpnProtocols, string(p))
	}
	hs := &serverHandshakeState{c: &Conn{config: cfg, vers: vers}, clientHello: ch}
	err := hs.processClientHello()
	if !bytes.Contains(ch.compressionMethods, []byte{0}) {
		vr.Assert(err != nil, "clients without null compression are refused")
		vr.Cover("nocompression")
		return
	}
	vr.Assert(err == nil, "accepted")
	tail := hs.hello.random[24:]
	c12, c11 := []byte(downgradeCanaryTLS12), []byte(downgradeCanaryTLS11)
	if maxVers >= VersionTLS12 && vers < maxVers {
		if vers == VersionTLS12 {
			vr.Assert(bytes.Equal(tail, c12), "TLS 1.2 downgrade sentinel")
			vr.Cover("sentinel12")
		} else {
			vr.Assert(bytes.Equal(tail, c11), "TLS 1.1-or-below downgrade sentinel")
			vr.Cover("sentinel11")
		}
	} else {
		vr.Cover("nosentinel") // left to the random source
	}
	// ALPN: first server-preferred protocol the client offered, if any
	want := ""
	for _, s := range protos {
		for _, c := range ch.alpnProtocols {
			if want == "" && s == c {
				want = s
			}
		}
	}
	vr.Assert(hs.hello.alpnProtocol == want && hs.c.clientProtocol == want, "ALPN follows the server's preference among the client's offers")
	vr.Assert(hs.hello.vers == vers && hs.hello.compressionMethod == 0, "ServerHello carries the negotiated version and null compression")
}

// verif: covers=done
func VerifH_C24_ecdhe_support() {
	var curves []CurveID
	for _, c := range c30u16s("curve", 0, 2) {
		curves = append(curves, CurveID(c))
	}
	points := c30bs("points", 0, 2)
	cfg := &Config{}
	got := supportsECDHE(cfg, curves, points)
	wantCurve := false
	for _, c := range curves {
		if c == X25519 || c == CurveP256 || c == CurveP384 || c == CurveP521 {
			wantCurve = true
		}
	}
	vr.Assert(got == (wantCurve && bytes.Contains(points, []byte{0})), "ECDHE usable iff a default curve and the uncompressed point format are offered")
	vr.Cover("done")
}

// C24 (TLS <= 1.2 ECDHE): the server's ServerKeyExchange names the first group of the
// client's list that is usable at this version (the TLS 1.3-only hybrid groups are not)
// and that the server enables. Key generation, hashing and signing are environment.
type c24Signer struct{}

func (c24Signer) Public() crypto.PublicKey {
	return &rsa.PublicKey{N: big.NewInt(35), E: big.NewInt(5)}
}
func (c24Signer) Sign(_ io.Reader, digest []byte, _ crypto.SignerOpts) ([]byte, error) {
	return []byte{1, 2}, nil
}

type c24Params struct{ id CurveID }

func (p *c24Params) CurveID() CurveID          { return p.id }
func (p *c24Params) PublicKey() []byte         { return []byte{4, 1, 2} }
func (p *c24Params) SharedKey(_ []byte) []byte { return []byte{9} }
func (p *c24Params) Clone() ecdheParameters    { return p }
func (p *c24Params) MakeLog() (*jsonKeys.ECPoint, *jsonKeys.ECDHPrivateParams) {
	return nil, nil
}

// verif: covers=chosen,none
func VerifH_C24_server_curve_choice() {
	vr.Stub("github.com/zmap/zcrypto/tls.generateECDHEParameters", func(r io.Reader, id CurveID) (ecdheParameters, error) {
		return &c24Params{id: id}, nil
	})
	vr.Stub("github.com/zmap/zcrypto/tls.hashForServerKeyExchange", func(sigType uint8, h crypto.Hash, version uint16, slices ...[]byte) []byte {
		return []byte{0x5a}
	})
	pool := []CurveID{X25519MLKEM768, X25519, CurveP256, CurveP384, SecP256r1MLKEM768, CurveID(0x9999)}
	var offered []CurveID
	for i, n := 0, vr.Int("offered#", 0, 3); i < n; i++ {
		offered = append(offered, pool[vr.Pick(vr.Int("offered", 0, len(pool)-1))])
	}
	var enabled []CurveID
	for _, c := range []CurveID{X25519, CurveP256, CurveP384} {
		if vr.Bool("serverEnables") {
			enabled = append(enabled, c)
		}
	}
	vr.Assume(len(enabled) > 0)
	cfg := &Config{CurvePreferences: enabled}
	ka := &ecdheKeyAgreement{auth: &signedKeyAgreement{version: VersionTLS10, sigType: signatureRSA}, version: VersionTLS10, isRSA: true}
	hello := &clientHelloMsg{random: make([]byte, 32), supportedCurves: offered}
	skx, err := ka.generateServerKeyExchange(cfg, &Certificate{PrivateKey: c24Signer{}}, hello, &serverHelloMsg{random: make([]byte, 32)})
	want := CurveID(0)
	for _, c := range offered {
		classic := c == X25519 || c == CurveP256 || c == CurveP384
		on := false
		for _, e := range enabled {
			on = on || e == c
		}
		if want == 0 && classic && on {
			want = c
		}
	}
	if want == 0 {
		vr.Assert(err != nil, "no mutually usable group: the key exchange is refused")
		vr.Cover("none")
		return
	}
	vr.Assert(err == nil && skx != nil && len(skx.key) >= 4 && CurveID(skx.key[1])<<8|CurveID(skx.key[2]) == want, "the first mutually usable group of the client's list is chosen")
	vr.Cover("chosen")
}
