//go:build verif

package tls

import (
	vr "github.com/zmap/zcrypto/internal/verifrt"
)

type c01Unmarshaler interface{ unmarshal([]byte) bool }

func c01Sizes(sizes ...int) []byte {
	n := sizes[vr.Int("size", 0, len(sizes)-1)]
	return vr.Bytes("in", n)
}

func c01Range(lo, hi int) []int {
	var out []int
	for i := lo; i <= hi; i++ {
		out = append(out, i)
	}
	return out
}

// C01/C32: unmarshal of every handshake message type is total on arbitrary bytes.
// verif: covers=accepted,rejected
func VerifH_C01_tls_unmarshal_small() {
	max := 16
	if vr.Tier() == 1 {
		max = 24
	}
	in := vr.Bytes("in", vr.Int("n", 0, max))
	which := vr.Int("which", 0, 15)
	var m c01Unmarshaler
	switch which {
	case 0:
		m = &encryptedExtensionsMsg{}
	case 1:
		m = &endOfEarlyDataMsg{}
	case 2:
		m = &keyUpdateMsg{}
	case 3:
		m = &newSessionTicketMsgTLS13{}
	case 4:
		m = &certificateRequestMsgTLS13{}
	case 5:
		m = &certificateMsg{}
	case 6:
		m = &certificateMsgTLS13{}
	case 7:
		m = &serverKeyExchangeMsg{}
	case 8:
		m = &certificateStatusMsg{}
	case 9:
		m = &serverHelloDoneMsg{}
	case 10:
		m = &clientKeyExchangeMsg{}
	case 11:
		m = &finishedMsg{}
	case 12:
		m = &certificateRequestMsg{hasSignatureAlgorithm: vr.Bool("hasSigAlg")}
	case 13:
		m = &certificateVerifyMsg{hasSignatureAlgorithm: vr.Bool("hasSigAlg")}
	case 14:
		m = &newSessionTicketMsg{}
	case 15:
		m = &helloRequestMsg{}
	}
	if m.unmarshal(in) {
		vr.Cover("accepted")
	} else {
		vr.Cover("rejected")
	}
}

// verif: covers=accepted,rejected
func VerifH_C01_tls_unmarshal_session_state() {
	max := 22
	if vr.Tier() == 1 {
		max = 28
	}
	in := vr.Bytes("in", vr.Int("n", 0, max))
	var ok bool
	if vr.Bool("tls13") {
		var m sessionStateTLS13
		ok = m.unmarshal(in)
	} else {
		var m sessionState
		ok = m.unmarshal(in)
	}
	if ok {
		vr.Cover("accepted")
	} else {
		vr.Cover("rejected")
	}
}

// ClientHello: 41 fixed bytes (type, length, version, random, empty session id,
// ...) are needed before the variable part; sizes are chosen around that.
// verif: covers=accepted,rejected
func VerifH_C01_tls_unmarshal_client_hello() {
	hi := 54
	if vr.Tier() == 1 {
		hi = 56 // 60 exceeds 200000 paths
	}
	in := c01Sizes(append([]int{0, 5, 38, 39, 40}, c01Range(41, hi)...)...)
	var m clientHelloMsg
	if m.unmarshal(in) {
		vr.Cover("accepted")
	} else {
		vr.Cover("rejected")
	}
}

// verif: covers=accepted,rejected
func VerifH_C01_tls_unmarshal_server_hello() {
	hi := 54
	if vr.Tier() == 1 {
		hi = 60
	}
	in := c01Sizes(append([]int{0, 5, 37, 38, 39, 40, 41}, c01Range(42, hi)...)...)
	var m serverHelloMsg
	if m.unmarshal(in) {
		ids, ok := m.extractExtensions()
		vr.Assert(!ok || len(ids) <= len(in)/4, "extension identifiers bounded by the input")
		vr.Cover("accepted")
	} else {
		vr.Cover("rejected")
	}
}
