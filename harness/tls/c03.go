//go:build verif

package tls

import (
	"crypto"
	"crypto/ecdsa"
	"crypto/ed25519"
	"errors"

	vr "github.com/zmap/zcrypto/internal/verifrt"
	"github.com/zmap/zcrypto/rsa"
	"github.com/zmap/zcrypto/x509"
)

// C03: verifyHandshakeSignature dispatches every signature type to the matching
// primitive with the given hash, and refuses mismatched key types.
// verif: covers=accepted,rejected
func VerifH_C03_tls_verify_handshake_signature() {
	vr.Stub("crypto/ecdsa.VerifyASN1", func(pub *ecdsa.PublicKey, hash, sig []byte) bool { return vr.UFBool("ecdsa", hash, sig) })
	vr.Stub("crypto/ed25519.Verify", func(pub ed25519.PublicKey, msg, sig []byte) bool { return vr.UFBool("ed25519", msg, sig) })
	vr.Stub("github.com/zmap/zcrypto/rsa.VerifyPKCS1v15", func(pub *rsa.PublicKey, h crypto.Hash, digest, sig []byte) error {
		if vr.UFBool("rsa-pkcs1", []byte{byte(h)}, digest, sig) {
			return nil
		}
		return errors.New("model: bad signature")
	})
	vr.Stub("github.com/zmap/zcrypto/rsa.VerifyPSS", func(pub *rsa.PublicKey, h crypto.Hash, digest, sig []byte, opts *rsa.PSSOptions) error {
		if opts != nil && opts.SaltLength == rsa.PSSSaltLengthEqualsHash && vr.UFBool("rsa-pss", []byte{byte(h)}, digest, sig) {
			return nil
		}
		return errors.New("model: bad signature")
	})
	sigType := vr.U8("sigType")
	h := crypto.Hash(vr.U8("hash"))
	var key crypto.PublicKey
	kind := vr.Pick(vr.Int("keytype", 0, 5))
	switch kind {
	case 0:
		key = &rsa.PublicKey{}
	case 1:
		key = &ecdsa.PublicKey{}
	case 2:
		key = &x509.AugmentedECDSA{Pub: &ecdsa.PublicKey{}}
	case 3:
		key = ed25519.PublicKey{1}
	case 4:
		key = nil
	case 5:
		key = "other"
	}
	signed := vr.Bytes("signed", vr.Int("signedLen", 0, 2))
	sig := vr.Bytes("sig", vr.Int("sigLen", 0, 2))
	err := verifyHandshakeSignature(sigType, key, h, signed, sig)
	want := false
	switch sigType {
	case signatureECDSA:
		want = (kind == 1 || kind == 2) && vr.UFBool("ecdsa", signed, sig)
	case signatureEd25519:
		want = kind == 3 && vr.UFBool("ed25519", signed, sig)
	case signaturePKCS1v15:
		want = kind == 0 && vr.UFBool("rsa-pkcs1", []byte{byte(h)}, signed, sig)
	case signatureRSAPSS:
		want = kind == 0 && vr.UFBool("rsa-pss", []byte{byte(h)}, signed, sig)
	}
	vr.Assert((err == nil) == want, "accepted exactly when the signature type's primitive accepts under a key of that type")
	if err == nil {
		vr.Cover("accepted")
	} else {
		vr.Cover("rejected")
	}
}
