//go:build verif

package tls

import (
	"io"
	"net"
	"time"

	vr "github.com/zmap/zcrypto/internal/verifrt"
)

// mConn is a transport that delivers a fixed byte stream in arbitrary chunks and
// then reports EOF (the transport was closed). Writes are discarded.
type mConn struct {
	data  []byte
	chunk int
}

func (c *mConn) Read(p []byte) (int, error) {
	if len(c.data) == 0 {
		return 0, io.EOF
	}
	n := len(p)
	if n > len(c.data) {
		n = len(c.data)
	}
	if c.chunk > 0 && n > c.chunk {
		n = c.chunk
	}
	copy(p, c.data[:n])
	c.data = c.data[n:]
	return n, nil
}
func (c *mConn) Write(p []byte) (int, error)        { return len(p), nil }
func (c *mConn) Close() error                       { return nil }
func (c *mConn) LocalAddr() net.Addr                { return nil }
func (c *mConn) RemoteAddr() net.Addr               { return nil }
func (c *mConn) SetDeadline(t time.Time) error      { return nil }
func (c *mConn) SetReadDeadline(t time.Time) error  { return nil }
func (c *mConn) SetWriteDeadline(t time.Time) error { return nil }

// c32BoundRecordLength keeps the first record's length field small (<= 40, or the
// single over-long value 0x4801) so that the case split over buffer sizes stays
// within the bound; longer records only ever end in EOF or record_overflow.
func c32BoundRecordLength(stream []byte) {
	if len(stream) >= 5 {
		vr.Assume((stream[3] == 0 && stream[4] <= 40) || (stream[3] == 0x48 && stream[4] == 1))
	}
}

func c32SendAlertStubs() {
	vr.Stub("(*github.com/zmap/zcrypto/tls.Conn).sendAlert", func(c *Conn, a Alert) error { return a })
	vr.Stub("(*github.com/zmap/zcrypto/tls.Conn).sendAlertLocked", func(c *Conn, a Alert) error { return a })
}

// C32: reading handshake messages from a peer that sends arbitrary bytes and then
// closes returns a message or an error; it never panics and it terminates.
// verif: covers=message,error
func VerifH_C32_read_handshake_arbitrary_stream() {
	c32SendAlertStubs()
	max := 11
	if vr.Tier() == 1 {
		max = 13 // 16 exceeds 200000 paths
	}
	stream := vr.Bytes("stream", vr.Int("n", 0, max))
	c32BoundRecordLength(stream)
	c := &Conn{conn: &mConn{data: stream, chunk: vr.Int("chunk", 0, 1)}, config: &Config{}}
	if vr.Bool("haveVers") {
		c.haveVers = true
		c.vers = []uint16{VersionTLS10, VersionTLS12, VersionTLS13}[vr.Pick(vr.Int("vers", 0, 2))]
		c.in.version = c.vers
	}
	m, err := c.readHandshake()
	vr.Assert((m == nil) != (err == nil), "a message xor an error")
	if err == nil {
		vr.Cover("message")
		return
	}
	// a later call still returns (a buffered message or an error): no panic, no blocking
	m2, err2 := c.readHandshake()
	vr.Assert((m2 == nil) != (err2 == nil), "a message xor an error on the next call too")
	vr.Cover("error")
}

// C32: the same under an active (ideal) AEAD: arbitrary ciphertext from the peer.
// verif: covers=error
func VerifH_C32_read_record_protected() {
	c32SendAlertStubs()
	class := []int{c25PrefixAEAD, c25XorAEAD13, c25CBC11, c25Stream}[vr.Pick(vr.Int("class", 0, 3))]
	s := c25Make(class)
	max := 12
	if vr.Tier() == 1 {
		max = 16 // 30 exceeds 200000 paths
	}
	stream := vr.Bytes("stream", vr.Int("n", 0, max))
	c32BoundRecordLength(stream)
	c := &Conn{conn: &mConn{data: stream}, config: &Config{}, haveVers: true, vers: s.vers}
	c.in.version, c.in.cipher, c.in.mac, c.in.seq = s.vers, s.in.cipher, s.in.mac, s.in.seq
	if vr.Bool("handshakeComplete") {
		c.handshakeStatus = 1
	}
	err := c.readRecordOrCCS(vr.Bool("expectCCS"))
	if err != nil {
		c.readRecordOrCCS(false)
		vr.Cover("error")
	}
}

// verif: covers=accepted,rejected
func VerifH_C32_tls_unmarshal_small() { VerifH_C01_tls_unmarshal_small() }

// verif: covers=accepted,rejected
func VerifH_C32_tls_unmarshal_client_hello() { VerifH_C01_tls_unmarshal_client_hello() }

// verif: covers=accepted,rejected
func VerifH_C32_tls_unmarshal_server_hello() { VerifH_C01_tls_unmarshal_server_hello() }

// C32: log builders on empty / partially filled messages.
// verif: covers=done
func VerifH_C32_logs_on_empty_messages() {
	(&clientHelloMsg{}).MakeLog()
	(&serverHelloMsg{}).MakeLog()
	(&certificateMsg{}).MakeLog()
	(&certificateMsgTLS13{}).MakeLog()
	(&finishedMsg{}).MakeLog()
	(&ClientSessionState{}).MakeLog()
	(&clientHandshakeState{}).MakeLog()
	(&serverHandshakeState{}).MakeLog()
	(&serverKeyExchangeMsg{}).MakeLog(nil)
	(&serverKeyExchangeMsg{key: c30bs("key", 0, 2)}).MakeLog(&rsaKeyAgreement{})
	(&clientKeyExchangeMsg{}).MakeLog(nil)
	// RSA ClientKeyExchange: both callers log only after the 2-byte length prefix was
	// produced (client) or checked (server: processClientKeyExchange), so shorter
	// ciphertexts cannot reach the builder.
	ct := c30bs("ct", 2, 4)
	(&clientKeyExchangeMsg{ciphertext: ct}).MakeLog(&rsaKeyAgreement{})
	vr.Cover("done")
}
