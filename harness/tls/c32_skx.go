//go:build verif

package tls

import (
	"crypto"
	"crypto/elliptic"
	"errors"
	"io"
	"math/big"

	vr "github.com/zmap/zcrypto/internal/verifrt"
	jsonKeys "github.com/zmap/zcrypto/json"
	"github.com/zmap/zcrypto/rsa"
	"github.com/zmap/zcrypto/x509"
)

// C32 / C01 for the client's ServerKeyExchange processing: the ECDHE and DHE key
// agreements take the message body as arbitrary bytes and must answer with an error
// or success, never a panic. Curve arithmetic, key generation, the signed-parameters
// hash and the signature primitive are environment (arbitrary verdicts).

type c32Params struct{ shared bool }

func (p *c32Params) CurveID() CurveID                                          { return CurveP256 }
func (p *c32Params) PublicKey() []byte                                         { return []byte{4, 1, 2} }
func (p *c32Params) Clone() ecdheParameters                                    { return p }
func (p *c32Params) MakeLog() (*jsonKeys.ECPoint, *jsonKeys.ECDHPrivateParams) { return nil, nil }
func (p *c32Params) SharedKey(peer []byte) []byte {
	if p.shared {
		return []byte{9}
	}
	return nil
}

func c32SKXStubs() {
	shared, pointOK, sigOK := vr.Bool("sharedKeyExists"), vr.Bool("pointOnCurve"), vr.Bool("signatureVerifies")
	vr.Stub("github.com/zmap/zcrypto/tls.generateECDHEParameters", func(r io.Reader, id CurveID) (ecdheParameters, error) {
		return &c32Params{shared: shared}, nil
	})
	vr.Stub("crypto/elliptic.Unmarshal", func(c elliptic.Curve, data []byte) (*big.Int, *big.Int) {
		if pointOK {
			return big.NewInt(1), big.NewInt(2)
		}
		return nil, nil
	})
	vr.Stub("github.com/zmap/zcrypto/tls.hashForServerKeyExchange", func(sigType uint8, h crypto.Hash, version uint16, slices ...[]byte) []byte {
		return []byte{0x5a}
	})
	vr.Stub("github.com/zmap/zcrypto/rsa.VerifyPKCS1v15", func(pub *rsa.PublicKey, h crypto.Hash, hashed, sig []byte) error {
		if sigOK {
			return nil
		}
		return errors.New("model: bad signature")
	})
	vr.Stub("github.com/zmap/zcrypto/tls.verifyHandshakeSignature", func(sigType uint8, pub crypto.PublicKey, h crypto.Hash, signed, sig []byte) error {
		if sigOK {
			return nil
		}
		return errors.New("model: bad signature")
	})
}

// verif: covers=accepted,rejected
func VerifH_C32_ecdhe_server_key_exchange_arbitrary() {
	c32SKXStubs()
	max := 11
	if vr.Tier() == 1 {
		max = 13
	}
	body := vr.Bytes("skx", vr.Int("n", 0, max))
	if len(body) > 3 {
		vr.Assume(body[3] <= 2) // public value of at most two bytes, so that the signature part is reached
	}
	version := []uint16{VersionTLS10, VersionTLS12}[vr.Pick(vr.Int("version", 0, 1))]
	ka := &ecdheKeyAgreement{auth: &signedKeyAgreement{version: version}, version: version, isRSA: vr.Bool("rsaSuite")}
	hello := &clientHelloMsg{random: make([]byte, 32), supportedSignatureAlgorithms: []SignatureScheme{PKCS1WithSHA256, ECDSAWithP256AndSHA256, PSSWithSHA256}}
	cert := &x509.Certificate{PublicKey: &rsa.PublicKey{N: big.NewInt(35), E: big.NewInt(5)}}
	var err error
	panicked := vr.MayPanic(func() {
		err = ka.processServerKeyExchange(&Config{}, hello, &serverHelloMsg{random: make([]byte, 32)}, cert, &serverKeyExchangeMsg{key: body})
	})
	vr.Assert(!panicked, "an arbitrary ECDHE ServerKeyExchange body never panics the client")
	if err == nil {
		vr.Cover("accepted")
	} else {
		vr.Cover("rejected")
	}
}

// verif: covers=accepted,rejected
func VerifH_C32_dhe_server_key_exchange_arbitrary() {
	c32SKXStubs()
	max := 13
	if vr.Tier() == 1 {
		max = 15
	}
	body := vr.Bytes("skx", vr.Int("n", 0, max))
	for _, i := range []int{0} {
		if len(body) > i {
			vr.Assume(body[i] == 0) // one-byte length fields
		}
	}
	version := []uint16{VersionTLS10, VersionTLS12}[vr.Pick(vr.Int("version", 0, 1))]
	ka := &dheKeyAgreement{auth: &signedKeyAgreement{version: version, sigType: signatureRSA}}
	hello := &clientHelloMsg{random: make([]byte, 32), supportedSignatureAlgorithms: []SignatureScheme{PKCS1WithSHA256, ECDSAWithP256AndSHA256, PSSWithSHA256}}
	cert := &x509.Certificate{PublicKey: &rsa.PublicKey{N: big.NewInt(35), E: big.NewInt(5)}}
	var err error
	panicked := vr.MayPanic(func() {
		err = ka.processServerKeyExchange(&Config{}, hello, &serverHelloMsg{random: make([]byte, 32)}, cert, &serverKeyExchangeMsg{key: body})
	})
	vr.Assert(!panicked, "an arbitrary DHE ServerKeyExchange body never panics the client")
	if err == nil {
		vr.Cover("accepted")
	} else {
		vr.Cover("rejected")
	}
}
