//go:build verif

package tls

import (
	"bytes"
	"crypto"
	"io"

	vr "github.com/zmap/zcrypto/internal/verifrt"
	jsonKeys "github.com/zmap/zcrypto/json"
	"github.com/zmap/zcrypto/x509"
)

// C28: ClientHello log equals the message.
// verif: covers=done
func VerifH_C28_client_hello_log() {
	m := &clientHelloMsg{vers: vr.U16("vers"), random: vr.Bytes("random", 4), sessionId: c30bs("sid", 0, 2),
		cipherSuites: c30u16s("suite", 0, 2), compressionMethods: c30bs("comp", 0, 2), serverName: string(c30bs("sni", 0, 2)),
		ocspStapling: vr.Bool("ocsp"), ticketSupported: vr.Bool("ticket"), scts: vr.Bool("scts"),
		supportedPoints: c30bs("points", 0, 2), supportedVersions: c30u16s("sv", 0, 2), extendedMasterSecret: vr.Bool("ems")}
	for _, c := range c30u16s("curve", 0, 2) {
		m.supportedCurves = append(m.supportedCurves, CurveID(c))
	}
	for _, p := range c30bss("alpn", 0, 2, 1, 1) {
		m.alpnProtocols = append(m.alpnProtocols, string(p))
	}
	if m.ticketSupported {
		m.sessionTicket = c30bs("ticketbytes", 0, 3)
	}
	l := m.MakeLog()
	vr.Assert(uint16(l.Version) == m.vers && bytes.Equal(l.Random, m.random) && bytes.Equal(l.SessionID, m.sessionId), "version, random, session id")
	vr.Assert(len(l.CipherSuites) == len(m.cipherSuites) && len(l.CompressionMethods) == len(m.compressionMethods), "list lengths")
	for i := range m.cipherSuites {
		vr.Assert(uint16(l.CipherSuites[i]) == m.cipherSuites[i], "cipher suites")
	}
	for i := range m.compressionMethods {
		vr.Assert(uint8(l.CompressionMethods[i]) == m.compressionMethods[i], "compression methods")
	}
	vr.Assert(l.OcspStapling == m.ocspStapling && l.TicketSupported == m.ticketSupported && l.Scts == m.scts && l.ServerName == m.serverName, "flags and server name")
	vr.Assert(len(l.SupportedCurves) == len(m.supportedCurves) && len(l.SupportedPoints) == len(m.supportedPoints) && len(l.SupportedVersions) == len(m.supportedVersions) && len(l.AlpnProtocols) == len(m.alpnProtocols), "extension list lengths")
	for i := range m.supportedCurves {
		vr.Assert(l.SupportedCurves[i] == m.supportedCurves[i], "curves")
	}
	for i := range m.supportedPoints {
		vr.Assert(uint8(l.SupportedPoints[i]) == m.supportedPoints[i], "point formats")
	}
	for i := range m.supportedVersions {
		vr.Assert(uint16(l.SupportedVersions[i]) == m.supportedVersions[i], "supported versions")
	}
	for i := range m.alpnProtocols {
		vr.Assert(l.AlpnProtocols[i] == m.alpnProtocols[i], "ALPN")
	}
	if len(m.sessionTicket) > 0 {
		vr.Assert(l.SessionTicket != nil && l.SessionTicket.Length == len(m.sessionTicket), "session ticket logged")
		vr.Assert(bytes.Equal(l.SessionTicket.Value, m.sessionTicket), "session ticket bytes complete")
	} else {
		vr.Assert(l.SessionTicket == nil, "no ticket logged when none was sent")
	}
	// not aliased: later mutation of the message must not change the log
	if len(m.random) > 0 {
		m.random[0] ^= 0xff
		vr.Assert(l.Random[0] == m.random[0]^0xff, "log does not alias the message buffers")
	}
	vr.Cover("done")
}

// verif: covers=done
func VerifH_C28_server_hello_log() {
	m := c30shBase()
	m.ocspStapling, m.ticketSupported, m.extendedMasterSecret = vr.Bool("ocsp"), vr.Bool("ticket"), vr.Bool("ems")
	m.alpnProtocol = string(c30bs("alpn", 0, 2))
	m.supportedVersion = vr.U16("sv")
	m.serverShare.group = CurveID(vr.U16("ksg"))
	m.selectedGroup = CurveID(vr.U16("sg"))
	m.unknownExtensions = c30bss("unk", 0, 2, 4, 5)
	m.raw = nil
	l := m.MakeLog()
	vr.Assert(uint16(l.Version) == m.vers && bytes.Equal(l.Random, m.random) && bytes.Equal(l.SessionID, m.sessionId) &&
		uint16(l.CipherSuite) == m.cipherSuite && uint8(l.CompressionMethod) == m.compressionMethod, "fixed part")
	vr.Assert(l.OcspStapling == m.ocspStapling && l.TicketSupported == m.ticketSupported && l.ExtendedMasterSecret == m.extendedMasterSecret && l.AlpnProtocol == m.alpnProtocol, "flags")
	if m.supportedVersion != 0 {
		vr.Assert(l.SupportedVersions != nil && uint16(l.SupportedVersions.SelectedVersion) == m.supportedVersion, "selected version")
		want := m.serverShare.group
		if want == 0 {
			want = m.selectedGroup
		}
		if want != 0 {
			vr.Assert(l.KeyShare != nil && *l.KeyShare.KeyExchange == want, "negotiated group")
		} else {
			vr.Assert(l.KeyShare == nil, "no key share")
		}
	} else {
		vr.Assert(l.SupportedVersions == nil && l.KeyShare == nil, "TLS 1.3 fields absent")
	}
	vr.Assert(c30eqBss(l.UnknownExtensions, m.unknownExtensions), "unknown extensions copied")
	vr.Cover("done")
}

// verif: covers=done
func VerifH_C28_misc_logs() {
	certs := c30bss("cert", 0, 3, 1, 2)
	check := func(l *Certificates) {
		if len(certs) >= 1 {
			vr.Assert(bytes.Equal(l.Certificate.Raw, certs[0]), "leaf")
		} else {
			vr.Assert(l.Certificate.Raw == nil, "no leaf")
		}
		vr.Assert(len(l.Chain) == maxInt(len(certs)-1, 0), "chain length")
		for i := range l.Chain {
			vr.Assert(bytes.Equal(l.Chain[i].Raw, certs[i+1]), "chain certificate")
		}
	}
	check((&certificateMsg{certificates: certs}).MakeLog())
	check((&certificateMsgTLS13{certificate: Certificate{Certificate: certs}}).MakeLog())
	// the parsed certificates attached after verification sit next to their own raw bytes
	l := (&certificateMsg{certificates: certs}).MakeLog()
	var parsed []*x509.Certificate
	for _, raw := range certs {
		parsed = append(parsed, &x509.Certificate{Raw: raw})
	}
	val := &x509.Validation{}
	l.addParsed(parsed, val)
	if len(certs) >= 1 {
		vr.Assert(l.Certificate.Parsed == parsed[0], "the leaf entry carries the parsed leaf")
	}
	for i := range l.Chain {
		vr.Assert(l.Chain[i].Parsed == parsed[i+1], "chain entry i carries the parsed form of wire certificate i+1")
	}
	vr.Assert(l.Validation == val, "validation result attached")
	vd := c30bs("vd", 0, 3)
	vr.Assert(bytes.Equal((&finishedMsg{verifyData: vd}).MakeLog().VerifyData, vd), "finished verify data")
	st := &ClientSessionState{sessionTicket: c30bs("ticket", 0, 3), lifetimeHint: vr.U32("hint")}
	sl := st.MakeLog()
	vr.Assert(bytes.Equal(sl.Value, st.sessionTicket) && sl.Length == len(st.sessionTicket) && sl.LifetimeHint == st.lifetimeHint, "session ticket log")
	hs := &clientHandshakeState{masterSecret: c30bs("ms", 0, 3), preMasterSecret: c30bs("pms", 0, 3)}
	km := hs.MakeLog()
	vr.Assert(bytes.Equal(km.MasterSecret.Value, hs.masterSecret) && km.MasterSecret.Length == len(hs.masterSecret) &&
		bytes.Equal(km.PreMasterSecret.Value, hs.preMasterSecret) && km.PreMasterSecret.Length == len(hs.preMasterSecret), "client key material")
	shs := &serverHandshakeState{masterSecret: hs.masterSecret, preMasterSecret: hs.preMasterSecret}
	km = shs.MakeLog()
	vr.Assert(bytes.Equal(km.MasterSecret.Value, hs.masterSecret) && bytes.Equal(km.PreMasterSecret.Value, hs.preMasterSecret), "server key material")
	ct := c30bs("ckx", 2, 4)
	ckx := &clientKeyExchangeMsg{ciphertext: ct}
	ckx.marshal()
	cl := ckx.MakeLog(&rsaKeyAgreement{})
	vr.Assert(bytes.Equal(cl.Raw, ckx.raw) && bytes.Equal(cl.RSAParams.EncryptedPMS, ct[2:]) && int(cl.RSAParams.Length) == len(ct)-2, "RSA client key exchange log")
	vr.Cover("done")
}

func maxInt(a, b int) int {
	if a > b {
		return a
	}
	return b
}

// model ECDHE parameters (the curve arithmetic is outside the claim)
type mECDHE struct{ id CurveID }

func (p *mECDHE) CurveID() CurveID  { return p.id }
func (p *mECDHE) PublicKey() []byte { return vr.UF("ecdhe-pub", 2) }
func (p *mECDHE) SharedKey(peer []byte) []byte {
	return vr.UF("ecdhe-shared", 2, append([]byte{}, peer...))
}
func (p *mECDHE) Clone() ecdheParameters { return p }
func (p *mECDHE) MakeLog() (*jsonKeys.ECPoint, *jsonKeys.ECDHPrivateParams) {
	return nil, nil
}

// C28: whenever the ECDHE ServerKeyExchange is processed under TLS 1.2, the logged
// signature-and-hash pair is the two bytes that were on the wire and Raw is
// exactly the signature bytes.
// verif: covers=accepted,sig-rejected
func VerifH_C28_ecdhe_signature_log() {
	cryptoStubs()
	vr.Stub("github.com/zmap/zcrypto/tls.generateECDHEParameters", func(r io.Reader, id CurveID) (ecdheParameters, error) {
		return &mECDHE{id: id}, nil
	})
	vr.Stub("github.com/zmap/zcrypto/tls.verifyHandshakeSignature", func(sigType uint8, pub crypto.PublicKey, h crypto.Hash, signed, sig []byte) error {
		if vr.UFBool("sig-valid", []byte{sigType}, signed, sig) {
			return nil
		}
		return errServerKeyExchange
	})
	isRSA := vr.Bool("isRSA")
	sigType := signatureECDSA
	if isRSA {
		sigType = signatureRSA
	}
	auth := &signedKeyAgreement{version: VersionTLS12, sigType: sigType}
	ka := &ecdheKeyAgreement{version: VersionTLS12, isRSA: isRSA, auth: auth}
	pub := vr.Bytes("pub", vr.Int("publen", 0, 2))
	scheme := []SignatureScheme{PKCS1WithSHA256, PKCS1WithSHA1, PSSWithSHA256, ECDSAWithP256AndSHA256, ECDSAWithSHA1, PKCS1WithSHA384}[vr.Pick(vr.Int("scheme", 0, 5))]
	sig := vr.Bytes("sig", vr.Int("siglen", 0, 3))
	key := append([]byte{3, 0, byte(X25519), byte(len(pub))}, pub...)
	key = append(key, byte(scheme>>8), byte(scheme), byte(len(sig)>>8), byte(len(sig)))
	key = append(key, sig...)
	skx := &serverKeyExchangeMsg{key: key}
	ch := &clientHelloMsg{random: vr.Bytes("cr", 2), supportedSignatureAlgorithms: []SignatureScheme{PKCS1WithSHA256, PKCS1WithSHA1, PSSWithSHA256, ECDSAWithP256AndSHA256, ECDSAWithSHA1, PKCS1WithSHA384}}
	sh := &serverHelloMsg{random: vr.Bytes("sr", 2)}
	err := ka.processServerKeyExchange(&Config{Rand: c24Rand{}}, ch, sh, &x509.Certificate{}, skx)
	if err != nil && ka.verifyError == nil {
		return // structurally refused before the signature was looked at: nothing is logged
	}
	log := skx.MakeLog(ka)
	vr.Assert(log.Signature != nil && log.Signature.SigHashExtension != nil, "TLS 1.2: the signature-and-hash extension is logged")
	vr.Assert(log.Signature.SigHashExtension.Hash == uint8(scheme>>8) && log.Signature.SigHashExtension.Signature == uint8(scheme), "logged SignatureAndHashAlgorithm is the pair on the wire")
	vr.Assert(bytes.Equal(log.Signature.Raw, sig), "Raw is exactly the signature bytes")
	vr.Assert(log.Signature.Valid == (err == nil), "validity flag follows the verification result")
	vr.Assert(bytes.Equal(log.Raw, key), "raw ServerKeyExchange body")
	if err == nil {
		vr.Cover("accepted")
	} else {
		vr.Cover("sig-rejected")
	}
}
