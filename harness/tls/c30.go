//go:build verif

package tls

import (
	"bytes"

	vr "github.com/zmap/zcrypto/internal/verifrt"
)

func c30bs(label string, lo, hi int) []byte {
	return vr.Bytes(label, vr.Int(label+"#", lo, hi))
}

func c30bss(label string, nlo, nhi, lo, hi int) [][]byte {
	n := vr.Int(label+"##", nlo, nhi)
	var out [][]byte
	for i := 0; i < n; i++ {
		out = append(out, c30bs(label, lo, hi))
	}
	return out
}

func c30eqBss(a, b [][]byte) bool {
	if len(a) != len(b) {
		return false
	}
	for i := range a {
		if !bytes.Equal(a[i], b[i]) {
			return false
		}
	}
	return true
}

func c30schemes(label string, lo, hi int) []SignatureScheme {
	n := vr.Int(label+"#", lo, hi)
	var out []SignatureScheme
	for i := 0; i < n; i++ {
		out = append(out, SignatureScheme(vr.U16(label)))
	}
	return out
}

func c30eqSchemes(a, b []SignatureScheme) bool {
	if len(a) != len(b) {
		return false
	}
	for i := range a {
		if a[i] != b[i] {
			return false
		}
	}
	return true
}

// c30NoPrefix: no strict prefix of raw is accepted by un.
func c30NoPrefix(raw []byte, un func([]byte) bool, what string) {
	cut := vr.Int("cut", 0, len(raw)-1)
	vr.Assert(!un(raw[:cut]), what+": strict prefix rejected")
}

// encryptedExtensionsMsg
// verif: covers=done
func VerifH_C30_encryptedExtensionsMsg() {
	m := &encryptedExtensionsMsg{alpnProtocol: string(c30bs("alpn", 0, 2))}
	raw := m.marshal()
	var g encryptedExtensionsMsg
	vr.Assert(g.unmarshal(raw) && g.alpnProtocol == m.alpnProtocol, "encryptedExtensions round-trips")
	c30NoPrefix(raw, func(d []byte) bool { var x encryptedExtensionsMsg; return x.unmarshal(d) }, "encryptedExtensions")
	vr.Cover("done")
}

// endOfEarlyData, serverHelloDone, helloRequest
// verif: covers=done
func VerifH_C30_emptyMessages() {
	var e endOfEarlyDataMsg
	raw := e.marshal()
	vr.Assert(e.unmarshal(raw), "endOfEarlyData round-trips")
	c30NoPrefix(raw, func(d []byte) bool { var x endOfEarlyDataMsg; return x.unmarshal(d) }, "endOfEarlyData")
	var s serverHelloDoneMsg
	raw = s.marshal()
	vr.Assert(s.unmarshal(raw), "serverHelloDone round-trips")
	c30NoPrefix(raw, func(d []byte) bool { var x serverHelloDoneMsg; return x.unmarshal(d) }, "serverHelloDone")
	var h helloRequestMsg
	raw = h.marshal()
	vr.Assert(h.unmarshal(raw), "helloRequest round-trips")
	c30NoPrefix(raw, func(d []byte) bool { var x helloRequestMsg; return x.unmarshal(d) }, "helloRequest")
	vr.Cover("done")
}

// clientKeyExchangeMsg
// verif: covers=done
func VerifH_C30_clientKeyExchangeMsg() {
	m := &clientKeyExchangeMsg{ciphertext: c30bs("ckx", 0, 3)}
	raw := m.marshal()
	var g clientKeyExchangeMsg
	vr.Assert(g.unmarshal(raw) && bytes.Equal(g.ciphertext, m.ciphertext), "clientKeyExchange round-trips")
	c30NoPrefix(raw, func(d []byte) bool { var x clientKeyExchangeMsg; return x.unmarshal(d) }, "clientKeyExchange")
	vr.Cover("done")
}

// certificateStatusMsg (non-empty response)
// verif: covers=done
func VerifH_C30_certificateStatusMsg() {
	m := &certificateStatusMsg{response: c30bs("ocsp", 1, 3)}
	raw := m.marshal()
	var g certificateStatusMsg
	vr.Assert(g.unmarshal(raw) && bytes.Equal(g.response, m.response), "certificateStatus round-trips")
	c30NoPrefix(raw, func(d []byte) bool { var x certificateStatusMsg; return x.unmarshal(d) }, "certificateStatus")
	vr.Cover("done")
}

// TLS 1.2 newSessionTicketMsg
// verif: covers=done
func VerifH_C30_newSessionTicketMsg() {
	m := &newSessionTicketMsg{ticket: c30bs("ticket", 0, 3), lifetimeHint: vr.U32("hint")}
	raw := m.marshal()
	var g newSessionTicketMsg
	ok := g.unmarshal(raw)
	vr.Assert(ok && bytes.Equal(g.ticket, m.ticket), "newSessionTicket: ticket round-trips")
	vr.Assert(g.lifetimeHint == m.lifetimeHint, "newSessionTicket: lifetime hint round-trips")
	c30NoPrefix(raw, func(d []byte) bool { var x newSessionTicketMsg; return x.unmarshal(d) }, "newSessionTicket")
	vr.Cover("done")
}

// certificateMsg
// verif: covers=done
func VerifH_C30_certificateMsg() {
	m := &certificateMsg{certificates: c30bss("cert", 0, 2, 1, 2)}
	raw := m.marshal()
	var g certificateMsg
	vr.Assert(g.unmarshal(raw) && c30eqBss(g.certificates, m.certificates), "certificate round-trips")
	c30NoPrefix(raw, func(d []byte) bool { var x certificateMsg; return x.unmarshal(d) }, "certificate")
	vr.Cover("done")
}

// certificateMsg with a long certificate: the certificate_list length runs over 250..262,
// across the points where the list length, or the message length three above it, carries
// into the next octet.
// verif: covers=done
func VerifH_C30_certificateMsg_long() {
	first := append(vr.Bytes("head", 1), make([]byte, 243+vr.Pick(vr.Int("fill", 0, 12)))...)
	m := &certificateMsg{certificates: [][]byte{first}}
	if vr.Bool("second") {
		m.certificates = append(m.certificates, vr.Bytes("cert2", 1))
	}
	raw := m.marshal()
	var g certificateMsg
	vr.Assert(g.unmarshal(raw) && c30eqBss(g.certificates, m.certificates), "certificate round-trips")
	vr.Assert(int(raw[1])<<16|int(raw[2])<<8|int(raw[3]) == len(raw)-4, "the message length field is the body length")
	vr.Cover("done")
}

// certificateRequestMsg (TLS <= 1.2)
// verif: covers=done
func VerifH_C30_certificateRequestMsg() {
	has := vr.Bool("hasSigAlg")
	m := &certificateRequestMsg{hasSignatureAlgorithm: has, certificateTypes: c30bs("ctype", 1, 2),
		certificateAuthorities: c30bss("ca", 0, 2, 0, 2)}
	if has {
		m.supportedSignatureAlgorithms = c30schemes("sigalg", 0, 2)
	}
	raw := m.marshal()
	g := certificateRequestMsg{hasSignatureAlgorithm: has}
	vr.Assert(g.unmarshal(raw), "certificateRequest unmarshals")
	vr.Assert(bytes.Equal(g.certificateTypes, m.certificateTypes) && c30eqBss(g.certificateAuthorities, m.certificateAuthorities) &&
		c30eqSchemes(g.supportedSignatureAlgorithms, m.supportedSignatureAlgorithms), "certificateRequest round-trips")
	c30NoPrefix(raw, func(d []byte) bool { x := certificateRequestMsg{hasSignatureAlgorithm: has}; return x.unmarshal(d) }, "certificateRequest")
	vr.Cover("done")
}

// verif: covers=done
func VerifH_C30_keyUpdateMsg() {
	m := &keyUpdateMsg{updateRequested: vr.Bool("upd")}
	raw := m.marshal()
	var g keyUpdateMsg
	vr.Assert(g.unmarshal(raw) && g.updateRequested == m.updateRequested, "keyUpdate round-trips")
	c30NoPrefix(raw, func(d []byte) bool { var x keyUpdateMsg; return x.unmarshal(d) }, "keyUpdate")
	vr.Cover("done")
}

// verif: covers=done
func VerifH_C30_finishedMsg() {
	m := &finishedMsg{verifyData: c30bs("vd", 0, 3)}
	raw := m.marshal()
	var g finishedMsg
	vr.Assert(g.unmarshal(raw) && bytes.Equal(g.verifyData, m.verifyData), "finished round-trips")
	c30NoPrefix(raw, func(d []byte) bool { var x finishedMsg; return x.unmarshal(d) }, "finished")
	vr.Cover("done")
}

// serverKeyExchangeMsg (opaque body: round trip only)
// verif: covers=done
func VerifH_C30_serverKeyExchangeMsg() {
	m := &serverKeyExchangeMsg{key: c30bs("skx", 0, 3)}
	raw := m.marshal()
	var g serverKeyExchangeMsg
	vr.Assert(g.unmarshal(raw) && bytes.Equal(g.key, m.key), "serverKeyExchange round-trips")
	vr.Cover("done")
}

// verif: covers=done
func VerifH_C30_certificateVerifyMsg() {
	has := vr.Bool("hasSigAlg")
	m := &certificateVerifyMsg{hasSignatureAlgorithm: has, signature: c30bs("sig", 0, 3)}
	if has {
		m.signatureAlgorithm = SignatureScheme(vr.U16("alg"))
	}
	raw := m.marshal()
	g := certificateVerifyMsg{hasSignatureAlgorithm: has}
	vr.Assert(g.unmarshal(raw) && bytes.Equal(g.signature, m.signature) && g.signatureAlgorithm == m.signatureAlgorithm, "certificateVerify round-trips")
	c30NoPrefix(raw, func(d []byte) bool { x := certificateVerifyMsg{hasSignatureAlgorithm: has}; return x.unmarshal(d) }, "certificateVerify")
	vr.Cover("done")
}

// verif: covers=done
func VerifH_C30_newSessionTicketMsgTLS13() {
	m := &newSessionTicketMsgTLS13{lifetime: vr.U32("lt"), ageAdd: vr.U32("age"), nonce: c30bs("nonce", 0, 2),
		label: c30bs("label", 0, 2), maxEarlyData: vr.U32("med")}
	raw := m.marshal()
	var g newSessionTicketMsgTLS13
	vr.Assert(g.unmarshal(raw) && g.lifetime == m.lifetime && g.ageAdd == m.ageAdd && bytes.Equal(g.nonce, m.nonce) &&
		bytes.Equal(g.label, m.label) && g.maxEarlyData == m.maxEarlyData, "newSessionTicketTLS13 round-trips")
	c30NoPrefix(raw, func(d []byte) bool { var x newSessionTicketMsgTLS13; return x.unmarshal(d) }, "newSessionTicketTLS13")
	vr.Cover("done")
}

// verif: covers=done
func VerifH_C30_certificateMsgTLS13() {
	m := &certificateMsgTLS13{ocspStapling: vr.Bool("ocsp"), scts: vr.Bool("scts")}
	m.certificate.Certificate = c30bss("cert13", 0, 2, 1, 2)
	if len(m.certificate.Certificate) > 0 {
		// staples are attached to the leaf only
		if m.ocspStapling {
			m.certificate.OCSPStaple = c30bs("staple", 1, 2)
		}
		if m.scts {
			m.certificate.SignedCertificateTimestamps = c30bss("sct", 1, 2, 1, 2)
		}
	} else {
		m.ocspStapling, m.scts = false, false
	}
	raw := m.marshal()
	var g certificateMsgTLS13
	vr.Assert(g.unmarshal(raw), "certificateTLS13 unmarshals")
	vr.Assert(c30eqBss(g.certificate.Certificate, m.certificate.Certificate), "certificateTLS13 chain")
	vr.Assert(g.ocspStapling == m.ocspStapling && bytes.Equal(g.certificate.OCSPStaple, m.certificate.OCSPStaple), "certificateTLS13 staple")
	vr.Assert(g.scts == m.scts && c30eqBss(g.certificate.SignedCertificateTimestamps, m.certificate.SignedCertificateTimestamps), "certificateTLS13 scts")
	c30NoPrefix(raw, func(d []byte) bool { var x certificateMsgTLS13; return x.unmarshal(d) }, "certificateTLS13")
	vr.Cover("done")
}

// verif: covers=done
func VerifH_C30_certificateRequestMsgTLS13() {
	m := &certificateRequestMsgTLS13{ocspStapling: vr.Bool("ocsp"), scts: vr.Bool("scts"),
		supportedSignatureAlgorithms:     c30schemes("sa", 0, 2),
		supportedSignatureAlgorithmsCert: c30schemes("sac", 0, 2),
		certificateAuthorities:           c30bss("ca13", 0, 2, 1, 2)}
	raw := m.marshal()
	var g certificateRequestMsgTLS13
	vr.Assert(g.unmarshal(raw), "certificateRequestTLS13 unmarshals")
	vr.Assert(g.ocspStapling == m.ocspStapling && g.scts == m.scts &&
		c30eqSchemes(g.supportedSignatureAlgorithms, m.supportedSignatureAlgorithms) &&
		c30eqSchemes(g.supportedSignatureAlgorithmsCert, m.supportedSignatureAlgorithmsCert) &&
		c30eqBss(g.certificateAuthorities, m.certificateAuthorities), "certificateRequestTLS13 round-trips")
	c30NoPrefix(raw, func(d []byte) bool { var x certificateRequestMsgTLS13; return x.unmarshal(d) }, "certificateRequestTLS13")
	vr.Cover("done")
}

// verif: covers=done
func VerifH_C30_sessionState() {
	m := &sessionState{vers: vr.U16("vers"), cipherSuite: vr.U16("suite"), createdAt: vr.U64("created"),
		masterSecret: c30bs("ms", 1, 2), certificates: c30bss("cert", 0, 2, 0, 2)}
	raw := m.marshal()
	var g sessionState
	vr.Assert(g.unmarshal(raw), "sessionState unmarshals")
	vr.Assert(g.vers == m.vers && g.cipherSuite == m.cipherSuite && g.createdAt == m.createdAt &&
		bytes.Equal(g.masterSecret, m.masterSecret) && c30eqBss(g.certificates, m.certificates), "sessionState round-trips")
	c30NoPrefix(raw, func(d []byte) bool { var x sessionState; return x.unmarshal(d) }, "sessionState")
	vr.Cover("done")
}

// verif: covers=done
func VerifH_C30_sessionStateTLS13() {
	m := &sessionStateTLS13{cipherSuite: vr.U16("suite13"), createdAt: vr.U64("created13"), resumptionSecret: c30bs("rs", 1, 2)}
	m.certificate.Certificate = c30bss("cert13", 0, 2, 1, 2)
	if len(m.certificate.Certificate) > 0 && vr.Bool("withStaple") {
		m.certificate.OCSPStaple = c30bs("staple", 1, 2)
	}
	raw := m.marshal()
	var g sessionStateTLS13
	vr.Assert(g.unmarshal(raw), "sessionStateTLS13 unmarshals")
	vr.Assert(g.cipherSuite == m.cipherSuite && g.createdAt == m.createdAt && bytes.Equal(g.resumptionSecret, m.resumptionSecret) &&
		c30eqBss(g.certificate.Certificate, m.certificate.Certificate) && bytes.Equal(g.certificate.OCSPStaple, m.certificate.OCSPStaple), "sessionStateTLS13 round-trips")
	c30NoPrefix(raw, func(d []byte) bool { var x sessionStateTLS13; return x.unmarshal(d) }, "sessionStateTLS13")
	vr.Cover("done")
}
