// Package verifrt is the harness runtime. It exists only in the build overlay
// (at /repo/internal/verifrt). Under the gosym engine every function here is
// intercepted; natively the inputs come from a tape so that solver witnesses can
// be replayed against the real build.
package verifrt

import (
	"fmt"
	"os"
	"strconv"
)

type Event struct {
	Kind  string `json:"kind"` // cover, obs, assert-fail, panic, assume-fail, known
	Label string `json:"label,omitempty"`
	Val   string `json:"val,omitempty"`
}

type state struct {
	tape   []uint64
	pos    int
	events []Event
	under  bool
}

var cur *state

type stop struct{ why string }

// Run executes a harness natively over a tape and returns its events.
func Run(h func(), tape []uint64) (events []Event) {
	cur = &state{tape: tape}
	defer func() {
		r := recover()
		events = cur.events
		if r != nil {
			if s, ok := r.(stop); ok {
				_ = s
			} else {
				events = append(events, Event{Kind: "panic", Val: fmt.Sprint(r)})
			}
		}
		cur = nil
	}()
	h()
	return
}

func next() uint64 {
	if cur == nil {
		panic("verifrt: no tape (harness run outside Run)")
	}
	if cur.pos >= len(cur.tape) {
		cur.under = true
		cur.pos++
		return 0
	}
	v := cur.tape[cur.pos]
	cur.pos++
	return v
}

func ev(kind, label, val string) {
	cur.events = append(cur.events, Event{Kind: kind, Label: label, Val: val})
}

func U8(label string) uint8   { return uint8(next()) }
func U16(label string) uint16 { return uint16(next()) }
func U32(label string) uint32 { return uint32(next()) }
func U64(label string) uint64 { return next() }
func Bool(label string) bool  { return next()&1 == 1 }

// Int returns an arbitrary int in [lo,hi].
func Int(label string, lo, hi int) int {
	v := int(int64(next()))
	if v < lo || v > hi {
		ev("assume-fail", label, "")
		panic(stop{"assume"})
	}
	return v
}

// Bytes returns n arbitrary bytes (cap == len).
func Bytes(label string, n int) []byte {
	b := make([]byte, n)
	for i := range b {
		b[i] = uint8(next())
	}
	return b
}

func String(label string, n int) string { return string(Bytes(label, n)) }

func Assume(c bool) {
	if !c {
		ev("assume-fail", "", "")
		panic(stop{"assume"})
	}
}

func Assert(c bool, msg string) {
	if !c {
		ev("assert-fail", msg, "")
		panic(stop{"assert"})
	}
}

func Cover(label string) { ev("cover", label, "") }

func ObserveU64(label string, v uint64) { ev("obs", label, strconv.FormatUint(v, 10)) }
func ObserveInt(label string, v int)    { ev("obs", label, strconv.FormatUint(uint64(int64(v)), 10)) }
func ObserveBool(label string, v bool) {
	if v {
		ev("obs", label, "1")
	} else {
		ev("obs", label, "0")
	}
}
func ObserveBytes(label string, v []byte)  { ev("obs", label, fmt.Sprintf("%x", v)) }
func ObserveString(label string, v string) { ev("obs", label, fmt.Sprintf("%x", v)) }

// UF is an uninterpreted function over byte strings. Natively its outputs are
// read from the tape (the solver's model of the function), so a replay follows
// the same path as the symbolic run.
func UF(name string, outLen int, args ...[]byte) []byte {
	return Bytes("uf:"+name, outLen)
}

// UFBool is a Boolean uninterpreted predicate.
func UFBool(name string, args ...[]byte) bool { return next()&1 == 1 }

// Stub replaces the function or method with the given full name (as printed by
// go/ssa, e.g. "crypto/sha256.Sum256" or "(*crypto/x509.Certificate).Verify")
// by fn for the rest of the path. Only the engine can do that.
func Stub(name string, fn interface{}) {
	ev("needs-engine", name, "")
	panic(stop{"stub"})
}

// KnownFinding declares that inputs satisfying cond belong to the known defect
// class id (see /verif/known_findings.json). It returns cond.
func KnownFinding(id string, cond bool) bool {
	if cond {
		ev("known", id, "")
	}
	return cond
}

// MayPanic runs f and reports whether it panicked.
func MayPanic(f func()) (panicked bool) {
	defer func() {
		if r := recover(); r != nil {
			if s, ok := r.(stop); ok {
				panic(s)
			}
			panicked = true
		}
	}()
	f()
	return false
}

// MapOrderNondet makes map iteration order nondeterministic under the engine
// (natively Go already randomises it).
func MapOrderNondet() {}

// Tier is 0 for quick, 1 for thorough.
func Tier() int {
	if os.Getenv("VERIF_TIER") == "thorough" {
		return 1
	}
	return 0
}

// Underflow reports whether the last Run read past the end of its tape.
func Underflow() bool { return cur != nil && cur.under }

// Branch-free helpers: natively ordinary Go; under the engine they build one
// term instead of forking the path (use them in reference oracles).
func And(a, b bool) bool { return a && b }
func Or(a, b bool) bool  { return a || b }
func IteInt(c bool, a, b int) int {
	if c {
		return a
	}
	return b
}
func IteU64(c bool, a, b uint64) uint64 {
	if c {
		return a
	}
	return b
}
func IteU8(c bool, a, b uint8) uint8 {
	if c {
		return a
	}
	return b
}
func IteBool(c bool, a, b bool) bool {
	if c {
		return a
	}
	return b
}
func BytesEq(a, b []byte) bool {
	if len(a) != len(b) {
		return false
	}
	for i := range a {
		if a[i] != b[i] {
			return false
		}
	}
	return true
}
func StrEq(a, b string) bool { return a == b }

// Pick returns x; under the engine the path is case-split so that x is concrete.
func Pick(x int) int { return x }
