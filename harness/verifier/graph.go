//go:build verif

package verifier

import (
	"bytes"
	"errors"
	"time"

	vr "github.com/zmap/zcrypto/internal/verifrt"
	"github.com/zmap/zcrypto/x509"
	"github.com/zmap/zcrypto/x509/revocation/google"
	"github.com/zmap/zcrypto/x509/revocation/mozilla"
)

type mKey struct{ id byte }

func gSigStub() {
	vr.Stub("github.com/zmap/zcrypto/x509.CheckSignatureFromKey", func(pk interface{}, algo x509.SignatureAlgorithm, signed, sig []byte) error {
		k, ok := pk.(mKey)
		if ok && vr.UFBool("sig", []byte{k.id}, signed) {
			return nil
		}
		return errors.New("model: signature does not verify")
	})
}

func gSig(key byte, c *x509.Certificate) bool {
	return vr.UFBool("sig", []byte{key}, c.RawTBSCertificate)
}

var gNB, gNA [8]int
var gSymbolicTimes bool

// gCert: certificate number id with symbolic subject, issuer and key (1 byte each).
func gCert(id byte) *x509.Certificate {
	subj, iss, key := vr.U8("subject"), vr.U8("issuer"), vr.U8("key")
	c := &x509.Certificate{Raw: []byte{id}, RawTBSCertificate: []byte{0xB0 | id}, FingerprintSHA256: []byte{id},
		RawSubject: []byte{subj}, RawIssuer: []byte{iss}, RawSubjectPublicKeyInfo: []byte{key},
		SPKISubjectFingerprint: []byte{subj, key}, SPKIFingerprint: []byte{key}, PublicKey: mKey{key}}
	c.BasicConstraintsValid = vr.Bool("bcValid")
	c.IsCA = vr.Bool("isCA")
	c.MaxPathLen = vr.Int("maxPathLen", -1, 1)
	gNB[id], gNA[id] = 10, 200
	if gSymbolicTimes {
		gNB[id], gNA[id] = int(vr.U8("notBefore")), int(vr.U8("notAfter"))
	}
	c.NotBefore, c.NotAfter = time.Unix(int64(gNB[id]), 0), time.Unix(int64(gNA[id]), 0)
	return c
}

func gSameNode(a, b *x509.Certificate) bool {
	return a.RawSubject[0] == b.RawSubject[0] && a.RawSubjectPublicKeyInfo[0] == b.RawSubjectPublicKeyInfo[0]
}

// gCheckGraph: the graph is the one determined by the certificate set.
func gCheckGraph(g *Graph, certs []*x509.Certificate, isRoot []bool, when string) {
	// nodes: one per distinct (subject, key)
	distinct := 0
	for i, c := range certs {
		first := true
		for j := 0; j < i; j++ {
			if gSameNode(certs[j], c) {
				first = false
			}
		}
		if first {
			distinct++
		}
		n := g.FindNode(c.SPKISubjectFingerprint)
		vr.Assert(n != nil && bytes.Equal(n.SubjectAndKey.RawSubject, c.RawSubject) && bytes.Equal(n.SubjectAndKey.RawSubjectPublicKeyInfo, c.RawSubjectPublicKeyInfo), when+": every certificate has its (subject,key) node")
	}
	vr.Assert(len(g.Nodes()) == distinct, when+": one node per distinct (subject, SPKI) pair")
	vr.Assert(len(g.Edges()) == len(certs), when+": one edge per distinct certificate")
	missing := 0
	for i, c := range certs {
		e := g.FindEdge(c.FingerprintSHA256)
		vr.Assert(e != nil && e.Certificate == c && e.child == g.FindNode(c.SPKISubjectFingerprint), when+": edge and its child node")
		vr.Assert(g.IsRoot(c) == isRoot[i], when+": roots are exactly the certificates added as roots")
		exists := false
		for _, p := range certs {
			if p.RawSubject[0] == c.RawIssuer[0] && gSig(p.RawSubjectPublicKeyInfo[0], c) {
				exists = true
			}
		}
		if e.issuer != nil {
			sk := e.issuer.SubjectAndKey
			vr.Assert(sk.RawSubject[0] == c.RawIssuer[0] && gSig(sk.RawSubjectPublicKeyInfo[0], c), when+": an edge's issuer has the issuer name and a key that verifies the certificate")
			vr.Assert(exists, when+": (issuer is one of the graph's nodes)")
			childFP := subjectAndKeyFingerprint(e.child.SubjectAndKey.Fingerprint)
			parentFP := subjectAndKeyFingerprint(sk.Fingerprint)
			cs, ps := e.issuer.childrenBySubjectAndKey[childFP], e.child.parentsBySubjectAndKey[parentFP]
			vr.Assert(cs != nil && cs.FindEdge(c.FingerprintSHA256) == e && ps != nil && ps.FindEdge(c.FingerprintSHA256) == e, when+": adjacency maps contain the edge on both sides")
		} else {
			vr.Assert(!exists, when+": an edge has no issuer exactly when no verifying node with the issuer name exists")
			ms := g.missingIssuerNode[string(c.RawIssuer)]
			vr.Assert(ms != nil && ms.FindEdge(c.FingerprintSHA256) == e, when+": issuer-less edges wait in the missing-issuer index")
			missing++
		}
	}
	total := 0
	for _, s := range g.missingIssuerNode {
		total += s.Size()
	}
	vr.Assert(total == missing, when+": the missing-issuer index holds nothing else")
}

// C10: the graph after any insertion order (with re-insertions and root/non-root
// re-insertions) is the one determined by the certificate set.
// verif: covers=done
func VerifH_C10_graph_determined_by_cert_set() {
	gSigStub()
	k := 2
	if vr.Tier() == 1 {
		k = 3
	}
	var certs []*x509.Certificate
	var isRoot []bool
	for i := 0; i < k; i++ {
		certs = append(certs, gCert(byte(i)))
		isRoot = append(isRoot, vr.Bool("isRoot"))
	}
	add := func(g *Graph, i int) {
		if isRoot[i] {
			g.AddRoot(certs[i])
		} else {
			g.AddCert(certs[i])
		}
	}
	g1 := NewGraph()
	for i := 0; i < k; i++ {
		add(g1, i)
	}
	gCheckGraph(g1, certs, isRoot, "insertion order 1")
	// a different order: reverse, each certificate first as a plain certificate, with a re-insertion
	g2 := NewGraph()
	for i := k - 1; i >= 0; i-- {
		g2.AddCert(certs[i])
		add(g2, i)
	}
	g2.AddCert(certs[0])
	gCheckGraph(g2, certs, isRoot, "insertion order 2")
	for _, c := range certs {
		vr.Assert((g1.FindEdge(c.FingerprintSHA256).issuer == nil) == (g2.FindEdge(c.FingerprintSHA256).issuer == nil), "both orders agree on which edges have an issuer")
	}
	vr.Cover("done")
}

// C10 with three certificates of which two certify the same (subject, key) pair — the
// shape in which one issuer holds several edges to one child, or a self-signed child is
// cross-signed later — in two insertion orders (quick-tier companion of the harness
// above, which reaches three certificates only in the thorough tier).
// verif: covers=done
func VerifH_C10_two_certificates_for_one_child() {
	gSigStub()
	certs := []*x509.Certificate{gCert(0), gCert(1), gCert(2)}
	vr.Assume(gSameNode(certs[1], certs[2]))
	isRoot := []bool{false, false, false}
	g1 := NewGraph()
	for i := 0; i < 3; i++ {
		g1.AddCert(certs[i])
	}
	gCheckGraph(g1, certs, isRoot, "issuer first")
	g2 := NewGraph()
	for i := 2; i >= 0; i-- {
		g2.AddCert(certs[i])
	}
	gCheckGraph(g2, certs, isRoot, "children first")
	for _, c := range certs {
		vr.Assert((g1.FindEdge(c.FingerprintSHA256).issuer == nil) == (g2.FindEdge(c.FingerprintSHA256).issuer == nil), "both orders agree on which edges have an issuer")
	}
	vr.Cover("done")
}

// gRefWalk enumerates the admissible paths from the statement of C11 over the
// graph's own edges (whose meaning C10 establishes).
func gRefWalk(g *Graph, chain []*GraphEdge, out *[][]*x509.Certificate) {
	last := chain[len(chain)-1]
	if last.root {
		var cs []*x509.Certificate
		for _, e := range chain {
			cs = append(cs, e.Certificate)
		}
		*out = append(*out, cs)
		return
	}
	if last.issuer == nil || len(chain) >= maxIntermediateCount {
		return
	}
	for _, e := range g.Edges() {
		if e.child != last.issuer {
			continue
		}
		// never revisit a (subject, key) pair
		revisit := false
		for _, p := range chain {
			if gSameNode(p.Certificate, e.Certificate) {
				revisit = true
			}
		}
		if revisit {
			continue
		}
		if !e.root && !(e.Certificate.BasicConstraintsValid && e.Certificate.IsCA) {
			continue // only CA certificates before the root
		}
		if e.Certificate.BasicConstraintsValid && e.Certificate.MaxPathLen >= 0 && len(chain)-1 > e.Certificate.MaxPathLen {
			continue
		}
		gRefWalk(g, append(append([]*GraphEdge{}, chain...), e), out)
	}
}

func gChainsEqual(a, b []*x509.Certificate) bool {
	if len(a) != len(b) {
		return false
	}
	for i := range a {
		if a[i] != b[i] {
			return false
		}
	}
	return true
}

// C11: WalkChains returns exactly the admissible root-terminated paths.
// verif: covers=some-chain,no-chain
func VerifH_C11_walk_chains() {
	gSigStub()
	vr.MapOrderNondet()
	k := 2 // three further certificates exceed 200000 paths in either tier
	g := NewGraph()
	var certs []*x509.Certificate
	for i := 0; i < k; i++ {
		c := gCert(byte(i))
		certs = append(certs, c)
		if vr.Bool("isRoot") {
			g.AddRoot(c)
		} else {
			g.AddCert(c)
		}
	}
	var start *x509.Certificate
	var startEdge *GraphEdge
	if vr.Bool("startInGraph") {
		start = certs[0]
		startEdge = g.FindEdge(start.FingerprintSHA256)
	} else {
		start = gCert(7)
		startEdge = &GraphEdge{Certificate: start}
		// the issuer a graph insertion would have found (any verifying node with the issuer name)
		for _, n := range g.Nodes() {
			if startEdge.issuer == nil && n.SubjectAndKey.RawSubject[0] == start.RawIssuer[0] && gSig(n.SubjectAndKey.RawSubjectPublicKeyInfo[0], start) {
				startEdge.issuer = n
			}
		}
	}
	got := g.WalkChains(start)
	var want [][]*x509.Certificate
	gRefWalk(g, []*GraphEdge{startEdge}, &want)
	if !vr.Bool("startInGraph2") {
		// several nodes may verify an out-of-graph start certificate: any choice is allowed,
		// so only compare when at most one node qualifies
		n := 0
		for _, nd := range g.Nodes() {
			if nd.SubjectAndKey.RawSubject[0] == start.RawIssuer[0] && gSig(nd.SubjectAndKey.RawSubjectPublicKeyInfo[0], start) {
				n++
			}
		}
		vr.Assume(startEdge.Certificate == certs[0] || n <= 1)
	}
	// (1) every returned chain is a root-terminated path over issuer edges
	for _, ch := range got {
		vr.Assert(len(ch) >= 1 && len(ch) <= maxIntermediateCount && ch[0] == start, "chain starts at the certificate and respects the maximum length")
		prev := startEdge
		for i := 1; i < len(ch); i++ {
			vr.Assert(!prev.root, "the walk stops at the first root edge")
			e := g.FindEdge(ch[i].FingerprintSHA256)
			vr.Assert(e != nil && prev.issuer != nil && e.child == prev.issuer, "each certificate is one of the previous certificate's issuer")
			last := i == len(ch)-1
			if !(last && e.root) {
				vr.Assert(ch[i].BasicConstraintsValid && ch[i].IsCA, "only CA certificates before the root")
			}
			if ch[i].BasicConstraintsValid && ch[i].MaxPathLen >= 0 {
				vr.Assert(i-1 <= ch[i].MaxPathLen, "path-length limits are respected")
			}
			prev = e
		}
		vr.Assert(prev.root, "chain ends at a root edge")
		dup := 0
		for _, o := range got {
			if gChainsEqual(ch, o) {
				dup++
			}
		}
		vr.Assert(dup == 1, "no chain is returned twice")
	}
	// (2) no (subject, key) pair is visited twice
	for _, ch := range got {
		for i := range ch {
			for j := i + 1; j < len(ch); j++ {
				if gSameNode(ch[i], ch[j]) {
					vr.KnownFinding("C11-self-issued-start-shares-key-with-chain-cert", i == 0 && start.RawIssuer[0] == start.RawSubject[0])
					vr.Assert(false, "no (subject, key) pair is visited twice")
				}
			}
		}
	}
	// (3) every admissible path is returned
	for _, w := range want {
		found := false
		for _, ch := range got {
			found = found || gChainsEqual(ch, w)
		}
		if !found {
			end := g.FindEdge(w[len(w)-1].FingerprintSHA256)
			vr.KnownFinding("C11-root-edge-without-issuer-is-unreachable", len(w) > 1 && end != nil && end.issuer == nil)
			vr.Assert(false, "every admissible path is returned")
		}
	}
	if len(got) > 0 {
		vr.Cover("some-chain")
	} else {
		vr.Cover("no-chain")
	}
}

// C12: Verifier results are a consistent view of the chains the walk returns.
// (two chains in the thorough tier ran past 45 minutes; both tiers take at most one)
// verif: covers=done
func VerifH_C12_verifier_result() { c12VerifierResult(false) }

// The revocation-set part of the result, with the other dimensions narrowed (exactly
// one chain of length one or two, no name, not a root).
// verif: covers=done
func VerifH_C12_revocation_sets() { c12VerifierResult(true) }

func c12VerifierResult(revocation bool) {
	gSymbolicTimes = true
	leaf := gCert(0)
	pool := []*x509.Certificate{gCert(1), gCert(2), gCert(3)}
	nch := 1
	maxLen := 2
	if !revocation {
		nch = vr.Int("nchains", 0, 1)
		maxLen = 3
	}
	var chains []x509.CertificateChain
	for i := 0; i < nch; i++ {
		ch := x509.CertificateChain{leaf}
		l := vr.Int("chainlen", 1, maxLen)
		for j := 1; j < l; j++ {
			ch = append(ch, pool[vr.Pick(vr.Int("member", 0, 2))])
		}
		chains = append(chains, ch)
	}
	vr.Stub("(*github.com/zmap/zcrypto/verifier.Graph).WalkChains", func(g *Graph, c *x509.Certificate) []x509.CertificateChain {
		vr.Assert(c == leaf, "the walk starts at the verified certificate")
		return chains
	})
	nameOK := vr.Bool("nameMatches")
	vr.Stub("(*github.com/zmap/zcrypto/x509.Certificate).VerifyHostname", func(c *x509.Certificate, h string) error {
		if nameOK {
			return nil
		}
		return errors.New("model: name mismatch")
	})
	g := NewGraph()
	isRoot := !revocation && vr.Bool("leafIsRoot")
	if isRoot {
		gSigStub()
		g.AddRoot(leaf)
	}
	nowS := int(vr.U8("now"))
	name := ""
	if !revocation {
		name = string(vr.Bytes("name", vr.Int("namelen", 0, 1)))
	}
	v := NewVerifier(g, nil)
	// revocation sets: either, both or none supplied; their membership verdicts are
	// arbitrary (C15 decides the sets themselves)
	opts := VerificationOptions{VerifyTime: time.Unix(int64(nowS), 0), Name: name}
	oneLists, crlLists := false, false
	if revocation {
		oneLists, crlLists = vr.Bool("oneCRLListsIt"), vr.Bool("crlSetListsIt")
		if vr.Bool("hasOneCRL") {
			opts.OneCRL = &mozilla.OneCRL{}
		}
		if vr.Bool("hasCRLSet") {
			opts.CRLSet = &google.CRLSet{}
		}
	}
	vr.Stub("(*github.com/zmap/zcrypto/x509/revocation/mozilla.OneCRL).Check", func(o *mozilla.OneCRL, c *x509.Certificate) *mozilla.Entry {
		if oneLists {
			return &mozilla.Entry{}
		}
		return nil
	})
	vr.Stub("(*github.com/zmap/zcrypto/x509/revocation/google.CRLSet).Check", func(s *google.CRLSet, c *x509.Certificate, issuerSPKIHash string) *google.Entry {
		if crlLists {
			return &google.Entry{}
		}
		return nil
	})
	res := v.Verify(leaf, opts)

	window := func(ch x509.CertificateChain) (lo, hi int) {
		lo, hi = gNB[ch[0].Raw[0]], gNA[ch[0].Raw[0]]
		for _, c := range ch[1:] {
			lo = vr.IteInt(gNB[c.Raw[0]] > lo, gNB[c.Raw[0]], lo)
			hi = vr.IteInt(gNA[c.Raw[0]] < hi, gNA[c.Raw[0]], hi)
		}
		return
	}
	in := func(ch x509.CertificateChain, list []x509.CertificateChain) int {
		n := 0
		for _, o := range list {
			if len(o) == len(ch) {
				same := true
				for i := range o {
					same = same && o[i] == ch[i]
				}
				if same {
					n++
				}
			}
		}
		return n
	}
	expS := gNA[0] - 1 // one second before the certificate's expiry
	vr.Assert(len(res.CurrentChains)+len(res.ExpiredChains)+len(res.NeverValidChains) == len(chains), "the three classes partition the walked chains")
	wantVAE := 0
	for _, ch := range chains {
		lo, hi := window(ch)
		vr.Assume(vr.And(nowS != lo, vr.And(nowS != hi, vr.And(lo != hi, vr.And(expS != lo, expS != hi)))))
		cur, exp, nev := in(ch, res.CurrentChains), in(ch, res.ExpiredChains), in(ch, res.NeverValidChains)
		dup := in(ch, chains)
		isCur := vr.And(lo < nowS, nowS < hi)
		wasValid := lo < hi
		vr.Assert(cur == vr.IteInt(isCur, dup, 0), "current chains are those valid at the verification time")
		vr.Assert(exp == vr.IteInt(vr.And(!isCur, wasValid), dup, 0), "expired chains were valid at some other time")
		vr.Assert(nev == vr.IteInt(!wasValid, dup, 0), "never-valid chains have an empty validity window")
		atExp := vr.And(lo < expS, expS < hi)
		vr.Assert(in(ch, res.ValidAtExpirationChains) == vr.IteInt(atExp, dup, 0), "valid-at-expiration chains are those valid one second before the certificate expires")
		wantVAE += vr.IteInt(atExp, 1, 0)
	}
	vr.Assert(len(res.ValidAtExpirationChains) == wantVAE, "no other valid-at-expiration chains")
	expired := !(gNB[0] <= nowS && nowS <= gNA[0])
	vr.Assume(nowS != gNB[0] && nowS != gNA[0])
	vr.Assert(res.Expired == expired, "expired flag = verification time outside the certificate's validity period")
	rel := res.CurrentChains
	if expired {
		rel = res.ValidAtExpirationChains
	}
	// parents = distinct second certificates of the relevant chains
	for _, p := range res.Parents {
		n, occurs := 0, false
		for _, q := range res.Parents {
			if q == p {
				n++
			}
		}
		for _, ch := range rel {
			occurs = occurs || (len(ch) >= 2 && ch[1] == p)
		}
		vr.Assert(n == 1 && occurs, "each parent is the second certificate of a relevant chain, listed once")
	}
	for _, ch := range rel {
		if len(ch) >= 2 {
			found := false
			for _, p := range res.Parents {
				found = found || p == ch[1]
			}
			vr.Assert(found, "every second certificate of a relevant chain is a parent")
		}
	}
	if len(name) > 0 {
		vr.Assert((res.NameError == nil) == nameOK && res.MatchesDomain() == nameOK, "name error follows hostname verification")
	} else {
		vr.Assert(res.NameError == nil && !res.MatchesDomain(), "no name: no name error, no domain match")
	}
	wantType := x509.CertificateTypeUnknown
	switch {
	case isRoot:
		wantType = x509.CertificateTypeRoot
	case leaf.IsCA && len(res.Parents) > 0:
		wantType = x509.CertificateTypeIntermediate
	case len(res.Parents) > 0:
		wantType = x509.CertificateTypeLeaf
	}
	vr.Assert(res.CertificateType == wantType, "certificate type follows the documented rules")
	wantRevoked := (opts.OneCRL != nil && oneLists) || (opts.CRLSet != nil && crlLists && len(res.Parents) > 0)
	vr.Assert(res.InRevocationSet == wantRevoked, "in a revocation set exactly when a supplied OneCRL, or a supplied CRLSet under one of the parents, lists the certificate")
	vr.Assert(res.HasTrustedChain() == (len(res.CurrentChains) > 0), "HasTrustedChain means a current chain exists")
	vr.Cover("done")
}

// C02: graph insertion is total (reuses the C10 harness; the no-panic monitor is on).
// verif: covers=done
func VerifH_C02_graph_insertion_total() { VerifH_C10_graph_determined_by_cert_set() }
