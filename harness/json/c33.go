//go:build verif

package json

import (
	"math/big"

	vr "github.com/zmap/zcrypto/internal/verifrt"
	"github.com/zmap/zcrypto/rsa"
)

// Key-exchange parameters are non-negative integers; nil stands for "absent" where
// the type documents it (Y of an x25519 point, the optional DH members).
func c33Nat(label string) *big.Int { return big.NewInt(int64(vr.U16(label))) }

func c33OptNat(label string) *big.Int {
	if vr.Bool(label + "-absent") {
		return nil
	}
	return c33Nat(label)
}

// c33OptPos is c33OptNat without zero (one fork fewer per member: zero has an empty byte string).
func c33OptPos(label string) *big.Int {
	if vr.Bool(label + "-absent") {
		return nil
	}
	return big.NewInt(int64(vr.Int(label, 1, 255)))
}

func c33SameInt(a, b *big.Int) bool {
	if a == nil || b == nil {
		return a == nil && b == nil
	}
	return a.Cmp(b) == 0
}

// verif: covers=with-y,without-y
func VerifH_C33_ec_point_json() {
	p := &ECPoint{X: c33Nat("x"), Y: c33OptNat("y")}
	var b []byte
	var err, derr error
	var g ECPoint
	panicked := vr.MayPanic(func() {
		b, err = p.MarshalJSON()
		derr = g.UnmarshalJSON(b)
	})
	vr.Assert(!panicked, "encoding and decoding an EC point does not panic")
	vr.Assert(err == nil && derr == nil, "an encoded EC point decodes")
	vr.Assert(c33SameInt(g.X, p.X) && c33SameInt(g.Y, p.Y), "an EC point round-trips, including one without a Y coordinate")
	if p.Y == nil {
		vr.Cover("without-y")
	} else {
		vr.Cover("with-y")
	}
}

// verif: covers=done
func VerifH_C33_dh_params_json() {
	p := &DHParams{Prime: c33Nat("p"), Generator: c33Nat("g"), ServerPublic: c33OptPos("sp"), ServerPrivate: c33OptPos("sk"),
		ClientPublic: c33OptPos("cp"), ClientPrivate: c33OptPos("ck"), SessionKey: c33OptPos("key")}
	var b []byte
	var err, derr error
	var g DHParams
	panicked := vr.MayPanic(func() {
		b, err = p.MarshalJSON()
		derr = g.UnmarshalJSON(b)
	})
	vr.Assert(!panicked, "encoding and decoding DH parameters does not panic")
	vr.Assert(err == nil && derr == nil, "encoded DH parameters decode")
	vr.Assert(c33SameInt(g.Prime, p.Prime) && c33SameInt(g.Generator, p.Generator) && c33SameInt(g.ServerPublic, p.ServerPublic) &&
		c33SameInt(g.ServerPrivate, p.ServerPrivate) && c33SameInt(g.ClientPublic, p.ClientPublic) && c33SameInt(g.ClientPrivate, p.ClientPrivate) &&
		c33SameInt(g.SessionKey, p.SessionKey), "DH parameters round-trip")
	vr.Cover("done")
}

// verif: covers=done
func VerifH_C33_rsa_public_key_json() {
	p := &RSAPublicKey{PublicKey: &rsa.PublicKey{N: c33Nat("n"), E: c33Nat("e")}}
	var b []byte
	var err, derr error
	var g RSAPublicKey
	panicked := vr.MayPanic(func() {
		b, err = p.MarshalJSON()
		derr = g.UnmarshalJSON(b)
	})
	vr.Assert(!panicked, "encoding and decoding an RSA public key does not panic")
	vr.Assert(err == nil && derr == nil, "an encoded RSA public key decodes")
	vr.Assert(g.PublicKey != nil && c33SameInt(g.N, p.N) && c33SameInt(g.E, p.E), "an RSA public key round-trips")
	vr.Cover("done")
}

// verif: covers=done
func VerifH_C33_curve_id_json() {
	c := TLSCurveID(vr.U16("curve"))
	var b []byte
	var err, derr error
	var g TLSCurveID
	panicked := vr.MayPanic(func() {
		b, err = c.MarshalJSON()
		derr = g.UnmarshalJSON(b)
	})
	vr.Assert(!panicked && err == nil && derr == nil && g == c, "a curve identifier round-trips")
	vr.Cover("done")
}
