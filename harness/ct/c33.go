//go:build verif

package ct

import (
	"bytes"

	vr "github.com/zmap/zcrypto/internal/verifrt"
)

// verif: covers=done
func VerifH_C33_ct_digitally_signed_json() {
	d := DigitallySigned{HashAlgorithm: HashAlgorithm(vr.U8("hash")), SignatureAlgorithm: SignatureAlgorithm(vr.U8("sigalg")), Signature: vr.Bytes("sig", vr.Int("siglen", 0, 2))}
	b, err := d.MarshalJSON()
	vr.Assert(err == nil, "encodes")
	var g DigitallySigned
	vr.Assert(g.UnmarshalJSON(b) == nil, "decodes")
	vr.Assert(g.HashAlgorithm == d.HashAlgorithm && g.SignatureAlgorithm == d.SignatureAlgorithm && bytes.Equal(g.Signature, d.Signature), "DigitallySigned round-trips through base64")
	vr.Cover("done")
}

// verif: covers=done
func VerifH_C33_ct_sha256hash_json() {
	var h SHA256Hash
	copy(h[:], vr.Bytes("first", 3))
	copy(h[29:], vr.Bytes("last", 3))
	b, err := h.MarshalJSON()
	vr.Assert(err == nil, "encodes")
	var g SHA256Hash
	vr.Assert(g.UnmarshalJSON(b) == nil && g == h, "SHA256Hash round-trips through base64")
	vr.Cover("done")
}
