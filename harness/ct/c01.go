//go:build verif

package ct

import (
	"bytes"

	vr "github.com/zmap/zcrypto/internal/verifrt"
)

// C01: the CT deserialisers are total on arbitrary bytes. Length prefixes are kept
// small (first prefix <= 24) so that the case split over buffer sizes stays in the
// bound; a 2- or 3-byte prefix can make readVarBytes allocate up to 64 KiB / 16 MiB
// before the short read is noticed, which the monitor (limit 2^24 elements) tolerates.
// Later prefixes are case-split over at most 40 values (maxsplit); the rest is
// reported as outside the bound.
// verif: covers=accepted,rejected alloclimit=16777216 maxsplit=40
func VerifH_C01_ct_deserializers_total() {
	max := 9
	if vr.Tier() == 1 {
		max = 14
	}
	in := vr.Bytes("in", vr.Int("n", 0, max))
	which := vr.Pick(vr.Int("which", 0, 4))
	var err error
	switch which {
	case 0:
		if len(in) >= 4 {
			vr.Assume(in[2] == 0 && in[3] <= 24)
		}
		_, err = UnmarshalDigitallySigned(bytes.NewReader(in))
	case 1:
		// a V1 SCT needs 41 fixed bytes before its first length prefix
		full := append(append([]byte{0}, make([]byte, 40)...), in...)
		if len(in) >= 2 {
			vr.Assume(in[0] == 0 && in[1] <= 24)
		}
		_, err = DeserializeSCT(bytes.NewReader(full))
	case 2:
		if len(in) >= 3 {
			vr.Assume(in[0] == 0 && in[1] == 0 && in[2] <= 24)
		}
		_, err = UnmarshalX509ChainArray(in)
	case 3:
		if len(in) >= 3 {
			vr.Assume(in[0] == 0 && in[1] == 0 && in[2] <= 24)
		}
		_, err = UnmarshalPrecertChainArray(in)
	case 4:
		// leaf: version, leaf type, timestamp (8), entry type (2) then a 3-byte length
		full := append([]byte{0, 0, 1, 2, 3, 4, 5, 6, 7, 8, 0, 0}, in...)
		if len(in) >= 3 {
			vr.Assume(in[0] == 0 && in[1] == 0 && in[2] <= 24)
		}
		_, err = ReadMerkleTreeLeaf(bytes.NewReader(full))
	}
	if err == nil {
		vr.Cover("accepted")
	} else {
		vr.Cover("rejected")
	}
}
