//go:build verif

package ct

import (
	"bytes"
	"crypto"
	"crypto/ecdsa"
	"errors"
	"hash"
	"math/big"

	vr "github.com/zmap/zcrypto/internal/verifrt"
	"github.com/zmap/zcrypto/rsa"
)

// c16Bytes: arbitrary short byte string, or a filler of a boundary length (zero
// content with symbolic ends) because only the length arithmetic is under test there.
func c16Bytes(label string, maxShort int, fillers ...int) []byte {
	if len(fillers) > 0 && vr.Bool(label+"-filler") {
		n := fillers[vr.Pick(vr.Int(label+"-fillersize", 0, len(fillers)-1))]
		b := make([]byte, n)
		b[0], b[n-1] = vr.U8(label), vr.U8(label)
		return b
	}
	return vr.Bytes(label, vr.Int(label+"#", 0, maxShort))
}

// verif: covers=roundtrip,refused
func VerifH_C16_digitally_signed_roundtrip() {
	ds := DigitallySigned{HashAlgorithm: HashAlgorithm(vr.U8("hash")), SignatureAlgorithm: SignatureAlgorithm(vr.U8("sigalg")),
		Signature: c16Bytes("sig", 3, 65535, 65536)}
	out, err := MarshalDigitallySigned(ds)
	if err != nil {
		vr.Cover("refused")
		return
	}
	vr.Assert(len(out) == 2+2+len(ds.Signature), "serialised length")
	got, err := UnmarshalDigitallySigned(bytes.NewReader(out))
	vr.Assert(err == nil && got != nil, "serialised value deserialises")
	vr.Assert(got.HashAlgorithm == ds.HashAlgorithm && got.SignatureAlgorithm == ds.SignatureAlgorithm && bytes.Equal(got.Signature, ds.Signature), "to the same value")
	vr.Cover("roundtrip")
}

// verif: covers=roundtrip,refused
func VerifH_C16_sct_roundtrip() {
	sct := SignedCertificateTimestamp{SCTVersion: Version(vr.U8("version")), Timestamp: vr.U64("timestamp"),
		Extensions: c16Bytes("ext", 3, 65535, 65536)}
	copy(sct.LogID[:], vr.Bytes("logid", 2))
	sct.LogID[31] = vr.U8("logid-last")
	sct.Signature = DigitallySigned{HashAlgorithm: HashAlgorithm(vr.U8("hash")), SignatureAlgorithm: SignatureAlgorithm(vr.U8("sigalg")),
		Signature: c16Bytes("sig", 3, 65535, 65536)}
	out, err := SerializeSCT(sct)
	if err != nil {
		vr.Cover("refused")
		return
	}
	n, lerr := sct.SerializedLength()
	vr.Assert(lerr == nil && n == len(out), "length matches the reported serialised length")
	got, err := DeserializeSCT(bytes.NewReader(out))
	vr.Assert(err == nil && got != nil, "serialised SCT deserialises")
	vr.Assert(got.SCTVersion == sct.SCTVersion && got.LogID == sct.LogID && got.Timestamp == sct.Timestamp && bytes.Equal(got.Extensions, sct.Extensions) &&
		got.Signature.HashAlgorithm == sct.Signature.HashAlgorithm && got.Signature.SignatureAlgorithm == sct.Signature.SignatureAlgorithm &&
		bytes.Equal(got.Signature.Signature, sct.Signature.Signature), "to the same value")
	// SerializeSCTHere into a caller buffer
	buf := make([]byte, n+vr.Int("slack", 0, 1))
	here, err := SerializeSCTHere(sct, buf)
	vr.Assert(err == nil && bytes.Equal(here, out), "SerializeSCTHere writes the same bytes")
	vr.Cover("roundtrip")
}

func be(v uint64, n int) []byte {
	out := make([]byte, n)
	for i := 0; i < n; i++ {
		out[n-1-i] = byte(v >> (8 * uint(i)))
	}
	return out
}

// Signature inputs follow RFC 6962 §3.2 / §3.5 byte for byte.
// verif: covers=x509,precert,sth,refused
func VerifH_C16_signature_inputs() {
	ts := vr.U64("timestamp")
	ext := c16Bytes("ext", 2, 65535, 65536)
	switch vr.Pick(vr.Int("kind", 0, 2)) {
	case 0:
		cert := c16Bytes("cert", 2)
		entry := LogEntry{Leaf: MerkleTreeLeaf{LeafType: TimestampedEntryLeafType, TimestampedEntry: TimestampedEntry{EntryType: X509LogEntryType, X509Entry: cert, Extensions: ext}}}
		got, err := SerializeSCTSignatureInput(SignedCertificateTimestamp{SCTVersion: V1, Timestamp: ts}, entry)
		if err != nil {
			vr.Assert(len(cert) == 0 || len(ext) > 65535, "refused only for an empty certificate or oversized extensions")
			vr.Cover("refused")
			return
		}
		want := append([]byte{0, 0}, be(ts, 8)...)
		want = append(want, 0, 0)
		want = append(append(want, be(uint64(len(cert)), 3)...), cert...)
		want = append(append(want, be(uint64(len(ext)), 2)...), ext...)
		vr.Assert(bytes.Equal(got, want), "certificate_timestamp input: version, type, timestamp, x509_entry, ASN.1Cert<3>, extensions<2>")
		vr.Cover("x509")
	case 1:
		tbs := c16Bytes("tbs", 2)
		var ikh [32]byte
		ikh[0], ikh[31] = vr.U8("ikh-first"), vr.U8("ikh-last")
		entry := LogEntry{Leaf: MerkleTreeLeaf{LeafType: TimestampedEntryLeafType, TimestampedEntry: TimestampedEntry{EntryType: PrecertLogEntryType,
			PrecertEntry: PreCert{IssuerKeyHash: ikh, TBSCertificate: tbs}, Extensions: ext}}}
		got, err := SerializeSCTSignatureInput(SignedCertificateTimestamp{SCTVersion: V1, Timestamp: ts}, entry)
		if err != nil {
			vr.Assert(len(tbs) == 0 || len(ext) > 65535, "refused only for an empty TBS or oversized extensions")
			vr.Cover("refused")
			return
		}
		want := append([]byte{0, 0}, be(ts, 8)...)
		want = append(want, 0, 1)
		want = append(want, ikh[:]...)
		want = append(append(want, be(uint64(len(tbs)), 3)...), tbs...)
		want = append(append(want, be(uint64(len(ext)), 2)...), ext...)
		vr.Assert(bytes.Equal(got, want), "precert input: version, type, timestamp, precert_entry, issuer_key_hash, TBS<3>, extensions<2>")
		vr.Cover("precert")
	case 2:
		sth := SignedTreeHead{Version: V1, Timestamp: ts, TreeSize: vr.U64("treesize")}
		sth.SHA256RootHash[0], sth.SHA256RootHash[31] = vr.U8("root-first"), vr.U8("root-last")
		got, err := SerializeSTHSignatureInput(sth)
		vr.Assert(err == nil, "a V1 tree head serialises")
		want := append([]byte{0, 1}, be(ts, 8)...)
		want = append(want, be(sth.TreeSize, 8)...)
		want = append(want, sth.SHA256RootHash[:]...)
		vr.Assert(bytes.Equal(got, want), "tree_hash input: version, type, timestamp, tree_size, sha256_root_hash")
		vr.Cover("sth")
	}
}

// Merkle tree leaves and chain arrays against reference writers.
// verif: covers=leaf,chains
func VerifH_C16_leaf_and_chains() {
	if vr.Bool("leaf") {
		ts := vr.U64("timestamp")
		ext := vr.Bytes("ext", vr.Int("ext#", 0, 2))
		precert := vr.Bool("precert")
		body := vr.Bytes("body", vr.Int("body#", 0, 3))
		in := append([]byte{0, 0}, be(ts, 8)...)
		var ikh [32]byte
		if precert {
			ikh[0], ikh[31] = vr.U8("ikh-first"), vr.U8("ikh-last")
			in = append(append(in, 0, 1), ikh[:]...)
		} else {
			in = append(in, 0, 0)
		}
		in = append(append(in, be(uint64(len(body)), 3)...), body...)
		in = append(append(in, be(uint64(len(ext)), 2)...), ext...)
		m, err := ReadMerkleTreeLeaf(bytes.NewReader(in))
		vr.Assert(err == nil && m != nil, "a well-formed leaf parses")
		e := m.TimestampedEntry
		vr.Assert(m.Version == V1 && m.LeafType == TimestampedEntryLeafType && e.Timestamp == ts && bytes.Equal(e.Extensions, ext), "leaf header, timestamp, extensions")
		if precert {
			vr.Assert(e.EntryType == PrecertLogEntryType && e.PrecertEntry.IssuerKeyHash == ikh && bytes.Equal(e.PrecertEntry.TBSCertificate, body), "precert entry")
		} else {
			vr.Assert(e.EntryType == X509LogEntryType && bytes.Equal(e.X509Entry, body), "x509 entry")
		}
		vr.Cover("leaf")
		return
	}
	n := vr.Int("ncerts", 0, 2)
	var certs [][]byte
	var list []byte
	for i := 0; i < n; i++ {
		c := vr.Bytes("cert", vr.Int("cert#", 0, 2))
		certs = append(certs, c)
		list = append(append(list, be(uint64(len(c)), 3)...), c...)
	}
	arr := append(be(uint64(len(list)), 3), list...)
	got, err := UnmarshalX509ChainArray(arr)
	vr.Assert(err == nil && len(got) == n, "chain array parses to its certificates")
	for i := range certs {
		vr.Assert(bytes.Equal(got[i], certs[i]), "certificates in order")
	}
	pre := vr.Bytes("precert", vr.Int("precert#", 0, 2))
	parr := append(append(be(uint64(len(pre)), 3), pre...), arr...)
	pgot, err := UnmarshalPrecertChainArray(parr)
	vr.Assert(err == nil && len(pgot) == n+1 && bytes.Equal(pgot[0], pre), "precert chain = precertificate then the chain")
	vr.Cover("chains")
}

// The verifier accepts exactly when SHA-256 is named, the algorithm matches the
// key type and the primitive accepts H(input) with the signature.
// verif: covers=accepted,rejected
func VerifH_C16_verify_signature() {
	vr.Stub("crypto/sha256.New", func() hash.Hash { return &c16Hash{} })
	vr.Stub("github.com/zmap/zcrypto/rsa.VerifyPKCS1v15", func(pub *rsa.PublicKey, h crypto.Hash, hashed, sig []byte) error {
		if h == crypto.SHA256 && vr.UFBool("rsa-verify", hashed, sig) {
			return nil
		}
		return errors.New("model: bad RSA signature")
	})
	vr.Stub("crypto/ecdsa.Verify", func(pub *ecdsa.PublicKey, hashed []byte, r, s *big.Int) bool {
		return vr.UFBool("ecdsa-verify", hashed, r.Bytes(), s.Bytes())
	})
	rInt, sInt := big.NewInt(int64(vr.U8("r"))), big.NewInt(int64(vr.U8("s")))
	derOK := vr.Bool("sigIsDER")
	vr.Stub("encoding/asn1.Unmarshal", func(b []byte, val interface{}) ([]byte, error) {
		if !derOK {
			return nil, errors.New("model: not a DER (r,s) pair")
		}
		p := val.(*struct{ R, S *big.Int })
		p.R, p.S = rInt, sInt
		return nil, nil
	})
	var v SignatureVerifier
	isRSAKey := vr.Bool("rsaKey")
	if isRSAKey {
		v.pubKey = &rsa.PublicKey{}
	} else {
		v.pubKey = &ecdsa.PublicKey{}
	}
	sth := SignedTreeHead{Version: V1, Timestamp: vr.U64("timestamp"), TreeSize: vr.U64("treesize")}
	sth.TreeHeadSignature = DigitallySigned{HashAlgorithm: HashAlgorithm(vr.U8("hash")), SignatureAlgorithm: SignatureAlgorithm(vr.U8("sigalg")), Signature: vr.Bytes("sig", 2)}
	err := v.VerifySTHSignature(sth)
	input, _ := SerializeSTHSignatureInput(sth)
	digest := vr.UF("H-sha256", 32, input)
	want := sth.TreeHeadSignature.HashAlgorithm == SHA256
	switch {
	case !want:
	case sth.TreeHeadSignature.SignatureAlgorithm == RSA:
		want = isRSAKey && vr.UFBool("rsa-verify", digest, sth.TreeHeadSignature.Signature)
	case sth.TreeHeadSignature.SignatureAlgorithm == ECDSA:
		want = !isRSAKey && derOK && vr.UFBool("ecdsa-verify", digest, rInt.Bytes(), sInt.Bytes())
	default:
		want = false
	}
	vr.Assert((err == nil) == want, "accepted exactly when SHA-256, matching key type and the primitive accepts H(signature input)")
	if err == nil {
		vr.Cover("accepted")
	} else {
		vr.Cover("rejected")
	}
}

type c16Hash struct{ buf []byte }

func (h *c16Hash) Write(p []byte) (int, error) { h.buf = append(h.buf, p...); return len(p), nil }
func (h *c16Hash) Sum(b []byte) []byte {
	return append(b, vr.UF("H-sha256", 32, append([]byte{}, h.buf...))...)
}
func (h *c16Hash) Reset()         { h.buf = nil }
func (h *c16Hash) Size() int      { return 32 }
func (h *c16Hash) BlockSize() int { return 64 }
