//go:build verif

package x509

import (
	vr "github.com/zmap/zcrypto/internal/verifrt"
)

// verif: covers=done
func VerifH_C33_key_usage() {
	k := KeyUsage(vr.U16("ku") & 0x1ff) // all 2^9 combinations of the defined usages
	b, err := k.MarshalJSON()
	vr.Assert(err == nil, "encodes")
	var g KeyUsage
	vr.Assert(g.UnmarshalJSON(b) == nil && g == k, "KeyUsage round-trips")
	vr.Cover("done")
}

// verif: covers=done
func VerifH_C33_algorithm_names() {
	{
		p := PublicKeyAlgorithm(vr.Int("pka", 0, int(total_key_algorithms)-1))
		b, err := p.MarshalJSON()
		var g PublicKeyAlgorithm
		vr.Assert(err == nil && g.UnmarshalJSON(b) == nil, "PublicKeyAlgorithm decodes")
		vr.Assert(g == p, "PublicKeyAlgorithm round-trips")
	}
	{
		// UnknownSignatureAlgorithm (0) is the documented "no algorithm" sentinel: it is encoded
		// without an OID and the decoder refuses that; outside the claim
		s := SignatureAlgorithm(vr.Int("sa", 1, int(Ed25519Sig)))
		b, err := s.MarshalJSON()
		var g SignatureAlgorithm
		vr.Assert(err == nil && g.UnmarshalJSON(b) == nil && g == s, "SignatureAlgorithm round-trips")
	}
	vr.Cover("done")
}
