//go:build verif

package x509

import (
	"bytes"
	"encoding/pem"
	"errors"

	vr "github.com/zmap/zcrypto/internal/verifrt"
)

// c08Cert: a certificate with symbolic fingerprint / subject / key id (1 byte each).
func c08Cert() *Certificate {
	c := &Certificate{FingerprintSHA256: vr.Bytes("fp", 1), RawSubject: vr.Bytes("subject", 1), Raw: []byte{1}}
	if vr.Bool("hasSKI") {
		c.SubjectKeyId = vr.Bytes("ski", 1)
	}
	return c
}

type c08Model struct{ certs []*Certificate } // distinct fingerprints, first-insertion order

func (m *c08Model) has(c *Certificate) bool {
	for _, x := range m.certs {
		if bytes.Equal(x.FingerprintSHA256, c.FingerprintSHA256) {
			return true
		}
	}
	return false
}

func (m *c08Model) add(c *Certificate) {
	if !m.has(c) {
		m.certs = append(m.certs, c)
	}
}

// c08Check: the pool equals the model and its representation invariant holds.
func c08Check(p *CertPool, m *c08Model, when string) {
	vr.Assert(p.Size() == len(m.certs), when+": Size")
	got := p.Certificates()
	subj := p.Subjects()
	vr.Assert(len(got) == len(m.certs) && len(subj) == len(m.certs), when+": Certificates/Subjects lengths")
	for i := range m.certs {
		vr.Assert(got[i] == m.certs[i], when+": first-insertion order")
		vr.Assert(bytes.Equal(subj[i], m.certs[i].RawSubject), when+": Subjects")
		vr.Assert(p.Contains(m.certs[i]), when+": Contains every member")
		idx, ok := p.bySHA256[string(m.certs[i].FingerprintSHA256)]
		vr.Assert(ok && idx == i, when+": fingerprint index")
		inName := false
		for _, n := range p.byName[string(m.certs[i].RawSubject)] {
			inName = inName || n == i
		}
		vr.Assert(inName, when+": name index")
		if len(m.certs[i].SubjectKeyId) > 0 {
			inKey := false
			for _, n := range p.bySubjectKeyId[string(m.certs[i].SubjectKeyId)] {
				inKey = inKey || n == i
			}
			vr.Assert(inKey, when+": key-id index")
		}
	}
	vr.Assert(len(p.bySHA256) == len(m.certs), when+": no stale fingerprint entries")
}

// C08 (a): histories of AddCert / Sum from empty pools.
// verif: covers=done
func VerifH_C08_pool_history() {
	steps := 3 // four steps exceed 200000 paths in either tier
	p, m := NewCertPool(), &c08Model{}
	q, mq := NewCertPool(), &c08Model{}
	for i := 0; i < steps; i++ {
		c := c08Cert()
		if vr.Bool("intoSecond") {
			q.AddCert(c)
			mq.add(c)
		} else {
			p.AddCert(c)
			m.add(c)
		}
	}
	c08Check(p, m, "first pool")
	c08Check(q, mq, "second pool")
	sum := p.Sum(q)
	ms := &c08Model{}
	for _, c := range m.certs {
		ms.add(c)
	}
	for _, c := range mq.certs {
		ms.add(c)
	}
	c08Check(sum, ms, "sum")
	vr.Assert(sum.Covers(p) && sum.Covers(q), "the sum covers both operands")
	probe := c08Cert()
	vr.Assert(p.Contains(probe) == m.has(probe), "Contains agrees with the set")
	covers := true
	for _, c := range mq.certs {
		covers = covers && m.has(c)
	}
	vr.Assert(p.Covers(q) == covers, "Covers agrees with set inclusion")
	var nilPool *CertPool
	vr.Assert(nilPool.Size() == 0 && !nilPool.Contains(probe) && p.Covers(nil), "nil pools are empty")
	vr.Cover("done")
}

// C08 (b): parent lookup only returns pool members whose signature over the child verifies.
// verif: covers=done
func VerifH_C08_find_verified_parents() {
	pkiSigStub()
	// two members with plain attributes, or one member with every attribute symbolic
	n := 2
	pkiPlainAttrs = !vr.Bool("richAttrs")
	if !pkiPlainAttrs {
		n = 1
	}
	// (one more certificate in the thorough tier exceeded 200000 paths)
	p := NewCertPool()
	var members []*Certificate
	for i := 1; i <= n; i++ {
		c := pkiCert(byte(i), true)
		members = append(members, c)
		p.AddCert(c)
	}
	child := pkiCert(0, true)
	parents, _, _ := p.findVerifiedParents(child)
	seen := map[int]bool{}
	for _, idx := range parents {
		vr.Assert(idx >= 0 && idx < len(p.certs), "parent index denotes a pool member")
		vr.Assert(!seen[idx], "no parent is reported twice")
		seen[idx] = true
		par := p.certs[idx]
		vr.Assert(pkiSig(par, child), "the parent's signature over the child verifies")
		vr.Assert(bytes.Equal(par.RawSubject, child.RawIssuer), "the parent is named as the child's issuer")
	}
	var nilPool *CertPool
	np, _, _ := nilPool.findVerifiedParents(child)
	vr.Assert(len(np) == 0, "a nil pool has no parents")
	vr.Cover("done")
}

// C08 (c): AppendCertsFromPEM adds exactly the parseable CERTIFICATE blocks without
// headers, in input order, and reports whether it added any. PEM framing and
// certificate parsing are environment here: pem.Decode reads a toy framing (three
// bytes per block: kind, has-headers flag, certificate id) and ParseCertificate
// returns a model certificate whose fingerprint and subject are functions of the
// block body, or fails when the body's top bit is set.
// verif: covers=some-added,none-added
func VerifH_C08_append_certs_from_pem() {
	vr.Stub("encoding/pem.Decode", func(data []byte) (*pem.Block, []byte) {
		if len(data) < 3 {
			return nil, data
		}
		b := &pem.Block{Type: "CERTIFICATE", Bytes: []byte{data[2]}}
		if data[0]&1 == 1 {
			b.Type = "X509 CRL"
		}
		if data[1]&1 == 1 {
			b.Headers = map[string]string{"Proc-Type": "4,ENCRYPTED"}
		}
		return b, data[3:]
	})
	vr.Stub("github.com/zmap/zcrypto/x509.ParseCertificate", func(der []byte) (*Certificate, error) {
		if der[0]&0x80 != 0 {
			return nil, errors.New("model: malformed certificate")
		}
		return &Certificate{Raw: der, FingerprintSHA256: []byte{der[0] & 3}, RawSubject: []byte{der[0] & 4}}, nil
	})
	blocks := vr.Int("blocks", 0, 3)
	if vr.Tier() == 1 {
		blocks = vr.Int("blocks-t", 0, 4)
	}
	input := vr.Bytes("pem", 3*blocks)
	trailing := vr.Int("trailing", 0, 2) // bytes after the last block that do not form one
	input = append(input, make([]byte, trailing)...)

	p := NewCertPool()
	ok := p.AppendCertsFromPEM(input)

	var wantFP [][]byte
	for i := 0; i < blocks; i++ {
		kind, hdr, id := input[3*i], input[3*i+1], input[3*i+2]
		if kind&1 == 1 || hdr&1 == 1 || id&0x80 != 0 {
			continue
		}
		fp := []byte{id & 3}
		dup := false
		for _, f := range wantFP {
			dup = dup || bytes.Equal(f, fp)
		}
		if !dup {
			wantFP = append(wantFP, fp)
		}
	}
	got := p.Certificates()
	vr.Assert(p.Size() == len(wantFP) && len(got) == len(wantFP), "the pool holds exactly the distinct parseable CERTIFICATE blocks")
	for i := range wantFP {
		vr.Assert(bytes.Equal(got[i].FingerprintSHA256, wantFP[i]), "in input order")
		vr.Assert(p.Contains(got[i]), "and Contains reports each")
	}
	vr.Assert(ok == (len(wantFP) > 0), "the result says whether any certificate was added")
	if ok {
		vr.Cover("some-added")
	} else {
		vr.Cover("none-added")
	}
}

// C08 (d): Sum yields an independent pool. Whatever the operands are (nil, empty or
// populated), a certificate added to the sum afterwards, or to an operand afterwards,
// appears only in the pool it was added to: each pool still "contains exactly the
// distinct certificates added" to it.
// verif: covers=done
func VerifH_C08_sum_is_independent() {
	var p, q *CertPool
	m, mq := &c08Model{}, &c08Model{}
	switch vr.Pick(vr.Int("firstKind", 0, 2)) { // 0 nil, 1 empty, 2 one certificate
	case 1:
		p = NewCertPool()
	case 2:
		p = NewCertPool()
		c := c08Cert()
		p.AddCert(c)
		m.add(c)
	}
	switch vr.Pick(vr.Int("secondKind", 0, 2)) {
	case 1:
		q = NewCertPool()
	case 2:
		q = NewCertPool()
		c := c08Cert()
		q.AddCert(c)
		mq.add(c)
	}
	sum := p.Sum(q)
	ms := &c08Model{}
	for _, c := range m.certs {
		ms.add(c)
	}
	for _, c := range mq.certs {
		ms.add(c)
	}
	vr.Assert(sum != nil, "Sum returns a pool")
	c08Check(sum, ms, "sum")
	late := c08Cert()
	if vr.Bool("lateIntoSum") {
		sum.AddCert(late)
		ms.add(late)
	} else if p != nil {
		p.AddCert(late)
		m.add(late)
	} else if q != nil {
		q.AddCert(late)
		mq.add(late)
	}
	c08Check(sum, ms, "sum after a later insertion")
	if p != nil {
		c08Check(p, m, "first operand after a later insertion")
	}
	if q != nil {
		c08Check(q, mq, "second operand after a later insertion")
	}
	vr.Cover("done")
}
