//go:build verif

package x509

import (
	"bytes"
	"net"

	"github.com/zmap/zcrypto/encoding/asn1"
	vr "github.com/zmap/zcrypto/internal/verifrt"
)

func c02Names(label string, max int) []string {
	n := vr.Int(label+"#", 0, max)
	var out []string
	for i := 0; i < n; i++ {
		out = append(out, vr.String(label, vr.Int(label+"-len", 0, 2)))
	}
	return out
}

func c02Same(a, b []string) bool {
	if len(a) != len(b) {
		return false
	}
	for i := range a {
		if a[i] != b[i] {
			return false
		}
	}
	return true
}

// C02: name de-duplication is deterministic whatever order the map iterates in.
// verif: covers=done
func VerifH_C02_purge_name_duplicates() {
	vr.MapOrderNondet()
	names := c02Names("name", 3)
	a := purgeNameDuplicates(append([]string{}, names...))
	b := purgeNameDuplicates(append([]string{}, names...))
	vr.Assert(c02Same(a, b), "two runs give identical output")
	for i := 0; i+1 < len(a); i++ {
		vr.Assert(a[i] < a[i+1], "output is strictly sorted (so duplicate-free)")
	}
	for _, n := range names {
		found := false
		for _, o := range a {
			found = found || o == n
		}
		vr.Assert(found, "every input name is kept")
	}
	for _, o := range a {
		found := false
		for _, n := range names {
			found = found || o == n
		}
		vr.Assert(found, "no name is invented")
	}
	vr.Cover("done")
}

// C02: CollectAllNames is total and deterministic (URL syntax check is an
// uninterpreted predicate of the string).
// verif: covers=done
func VerifH_C02_collect_all_names() {
	vr.MapOrderNondet()
	vr.Stub("github.com/zmap/zcrypto/util.IsURL", func(s string) bool { return vr.UFBool("IsURL", []byte(s)) })
	c := &Certificate{DNSNames: c02Names("dns", 2)}
	c.Subject.CommonName = vr.String("cn", vr.Int("cn-len", 0, 2))
	a := c.CollectAllNames()
	b := c.CollectAllNames()
	vr.Assert(c02Same(a, b), "collecting names twice gives identical output")
	for _, o := range a {
		found := o == c.Subject.CommonName
		for _, n := range c.DNSNames {
			found = found || o == n
		}
		vr.Assert(found, "only names from the certificate are collected")
	}
	vr.Cover("done")
}

// C02: signature checks against any candidate key, hostname verification and pool
// insertion are total (the no-panic monitor is on in every harness; these reuse
// the arbitrary-input harnesses of C03, C09 and C08).
// verif: covers=accepted,rejected
func VerifH_C02_signature_check_total() { VerifH_C03_check_signature_from_key() }

// verif: covers=dns-accept,dns-reject
func VerifH_C02_verify_hostname_total() { VerifH_C09_verify_hostname_bytes() }

// verif: covers=done
func VerifH_C02_pool_insertion_total() { VerifH_C08_pool_history() }

// C02: the certificate-policies JSON view is total. The pre-state is an arbitrary
// CertificatePoliciesData satisfying the representation invariant parseCertificate
// establishes (x509.go, certificate-policies branch): every per-policy slice has one
// entry per policy; within a policy each user notice contributes, independently, at
// most one explicit text and at most one (organisation, numbers) pair, appended in
// lock step; each CPS qualifier contributes one URI.
// verif: covers=done
func VerifH_C02_policies_json() {
	maxPolicies, maxNotices := 1, 3
	if vr.Tier() == 1 {
		maxPolicies, maxNotices = 2, 3 // (2, 4) exceeds 200000 paths
	}
	n := vr.Int("policies", 0, maxPolicies)
	cp := &CertificatePoliciesData{
		PolicyIdentifiers:     make([]asn1.ObjectIdentifier, n),
		QualifierId:           make([][]asn1.ObjectIdentifier, n),
		CPSUri:                make([][]string, n),
		ExplicitTexts:         make([][]string, n),
		NoticeRefOrganization: make([][]string, n),
		NoticeRefNumbers:      make([][]NoticeNumber, n),
		UserNotices:           make([][]UserNotice, n),
	}
	for i := 0; i < n; i++ {
		cp.PolicyIdentifiers[i] = asn1.ObjectIdentifier{2, 5}
		notices := vr.Int("notices", 0, maxNotices)
		for j := 0; j < notices; j++ {
			un := UserNotice{}
			if vr.Bool("hasText") {
				text := "t"
				cp.ExplicitTexts[i] = append(cp.ExplicitTexts[i], text)
				un.ExplicitText = &text
			}
			if vr.Bool("hasRef") {
				cp.NoticeRefOrganization[i] = append(cp.NoticeRefOrganization[i], "o")
				cp.NoticeRefNumbers[i] = append(cp.NoticeRefNumbers[i], NoticeNumber{1})
				un.NoticeReference = &NoticeReference{Organization: "o", NoticeNumbers: NoticeNumber{1}}
			}
			cp.UserNotices[i] = append(cp.UserNotices[i], un)
		}
		if vr.Bool("hasCPS") {
			cp.CPSUri[i] = append(cp.CPSUri[i], "u")
		}
	}
	var err error
	panicked := vr.MayPanic(func() { _, err = cp.MarshalJSON() })
	vr.Assert(!panicked, "the certificate-policies JSON view does not panic")
	vr.Assert(err == nil, "the certificate-policies JSON view does not fail")
	vr.Cover("done")
}

// C02: serialising an IP-range name constraint is a read-only operation — the parsed
// certificate's address and mask are the same afterwards, so a second serialisation
// starts from the same value (the JSON view is deterministic).
// verif: covers=done
func VerifH_C02_ip_subtree_json_is_read_only() {
	// textual rendering of addresses is environment (net/netip formatting)
	vr.Stub("(net.IP).String", func(ip net.IP) string { return "address" })
	vr.Stub("(*net.IPNet).String", func(n *net.IPNet) string { return "network" })
	ip := []net.IP{{10, 0, 0, 0}, {192, 168, 7, 0}, {0x20, 0x01, 0x0d, 0xb8, 0, 0, 0, 0, 0, 0, 0, 0, 0, 0, 0, 0}}[vr.Pick(vr.Int("ip", 0, 2))]
	ones := []int{0, 8, 20, 31, 32}[vr.Pick(vr.Int("prefix", 0, 4))]
	g := &GeneralSubtreeIP{Data: net.IPNet{IP: append(net.IP{}, ip...), Mask: net.CIDRMask(ones, 8*len(ip))}}
	ipBefore, maskBefore := append([]byte{}, g.Data.IP...), append([]byte{}, g.Data.Mask...)
	var err1, err2 error
	panicked := vr.MayPanic(func() {
		_, err1 = g.MarshalJSON()
		_, err2 = g.MarshalJSON()
	})
	vr.Assert(!panicked && err1 == nil && err2 == nil, "the IP subtree view is total")
	vr.Assert(bytes.Equal(g.Data.IP, ipBefore) && bytes.Equal(g.Data.Mask, maskBefore), "and leaves the certificate's address and mask untouched")
	vr.Cover("done")
}
