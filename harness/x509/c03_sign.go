//go:build verif

package x509

import (
	"bytes"
	"crypto"
	"crypto/ecdsa"
	"crypto/ed25519"
	"errors"
	"io"
	"math/big"
	"time"

	"github.com/zmap/zcrypto/encoding/asn1"
	vr "github.com/zmap/zcrypto/internal/verifrt"
	"github.com/zmap/zcrypto/rsa"
	"github.com/zmap/zcrypto/x509/pkix"
)

// The signing side of C03: every API that signs (CreateCertificate,
// CreateCertificateRequest, CreateRevocationList) must hand the signer the scheme,
// hash and digest that the verifier will use for the algorithm the output is
// labelled with; VerifH_C03_check_signature_from_key pins the verifier's side of the
// same reference table. DER encoding is outside this harness: asn1.Marshal is an
// injective token generator that remembers what it was given (reflection-driven
// marshalling is not encodable here), asn1.Unmarshal of the freshly built attribute
// list is the identity on an empty list.

type c03Marshalled struct {
	tok []byte
	val interface{}
}

type c03Capture struct {
	log     []c03Marshalled
	signed  bool
	pss     bool
	optHash crypto.Hash
	digest  []byte
	saltEq  bool
}

func (c *c03Capture) lookup(tok []byte) interface{} {
	for _, m := range c.log {
		if bytes.Equal(m.tok, tok) {
			return m.val
		}
	}
	return nil
}

type c03Signer struct {
	pub crypto.PublicKey
	cap *c03Capture
}

func (s c03Signer) Public() crypto.PublicKey { return s.pub }
func (s c03Signer) Sign(_ io.Reader, digest []byte, opts crypto.SignerOpts) ([]byte, error) {
	s.cap.signed = true
	s.cap.digest = append([]byte{}, digest...)
	s.cap.optHash = opts.HashFunc()
	if p, ok := opts.(*rsa.PSSOptions); ok {
		s.cap.pss = true
		s.cap.saltEq = p.SaltLength == rsa.PSSSaltLengthEqualsHash
	}
	return []byte{0xaa}, nil
}

func c03SignStubs(cap *c03Capture) {
	c03Stubs(nil, nil, false, 0)
	vr.Stub("github.com/zmap/zcrypto/encoding/asn1.Marshal", func(val interface{}) ([]byte, error) {
		tok := []byte{0x30, 0x02, 0x7e, byte(len(cap.log))}
		cap.log = append(cap.log, c03Marshalled{tok: tok, val: val})
		return tok, nil
	})
	vr.Stub("github.com/zmap/zcrypto/encoding/asn1.Unmarshal", func(b []byte, val interface{}) ([]byte, error) {
		return nil, nil
	})
}

// c03RefAlgo is the reference table (RFC 5280 / 4055 / 8410 / 5758): scheme and hash per algorithm.
func c03RefAlgo(a SignatureAlgorithm) (rsaKey, pss, ec, ed bool, h crypto.Hash) {
	switch a {
	case MD5WithRSA:
		return true, false, false, false, crypto.MD5
	case SHA1WithRSA:
		return true, false, false, false, crypto.SHA1
	case SHA256WithRSA:
		return true, false, false, false, crypto.SHA256
	case SHA384WithRSA:
		return true, false, false, false, crypto.SHA384
	case SHA512WithRSA:
		return true, false, false, false, crypto.SHA512
	case SHA256WithRSAPSS:
		return true, true, false, false, crypto.SHA256
	case SHA384WithRSAPSS:
		return true, true, false, false, crypto.SHA384
	case SHA512WithRSAPSS:
		return true, true, false, false, crypto.SHA512
	case ECDSAWithSHA1:
		return false, false, true, false, crypto.SHA1
	case ECDSAWithSHA256:
		return false, false, true, false, crypto.SHA256
	case ECDSAWithSHA384:
		return false, false, true, false, crypto.SHA384
	case ECDSAWithSHA512:
		return false, false, true, false, crypto.SHA512
	case Ed25519Sig:
		return false, false, false, true, 0
	}
	return
}

// c03Labelled decodes the algorithm the output is labelled with, the way the parser
// identifies it (OID, and for RSASSA-PSS the hash and salt length in the parameters).
func c03Labelled(cap *c03Capture, ai pkix.AlgorithmIdentifier) SignatureAlgorithm {
	if !ai.Algorithm.Equal(oidSignatureRSAPSS) {
		for _, d := range signatureAlgorithmDetails {
			if ai.Algorithm.Equal(d.oid) {
				return d.algo
			}
		}
		return UnknownSignatureAlgorithm
	}
	p, ok := cap.lookup(ai.Parameters.FullBytes).(pssParameters)
	if !ok || p.TrailerField != 1 || !p.MGF.Algorithm.Equal(oidMGF1) {
		return UnknownSignatureAlgorithm
	}
	mgf, ok := cap.lookup(p.MGF.Parameters.FullBytes).(pkix.AlgorithmIdentifier)
	if !ok || !mgf.Algorithm.Equal(p.Hash.Algorithm) {
		return UnknownSignatureAlgorithm
	}
	switch {
	case p.Hash.Algorithm.Equal(oidSHA256) && p.SaltLength == 32:
		return SHA256WithRSAPSS
	case p.Hash.Algorithm.Equal(oidSHA384) && p.SaltLength == 48:
		return SHA384WithRSAPSS
	case p.Hash.Algorithm.Equal(oidSHA512) && p.SaltLength == 64:
		return SHA512WithRSAPSS
	}
	return UnknownSignatureAlgorithm
}

func c03PickKey() (crypto.PublicKey, int) {
	switch k := vr.Pick(vr.Int("keytype", 0, 2)); k {
	case 0:
		return &rsa.PublicKey{N: big.NewInt(35), E: big.NewInt(5)}, 0
	case 1:
		return &ecdsa.PublicKey{Curve: nil, X: big.NewInt(1), Y: big.NewInt(1)}, 1
	default:
		return ed25519.PublicKey(make([]byte, 32)), 2
	}
}

// c03CheckSigned is the common oracle.
func c03CheckSigned(cap *c03Capture, keyKind int, requested SignatureAlgorithm, err error, label pkix.AlgorithmIdentifier, tbs []byte, sig asn1.BitString) {
	if err != nil {
		vr.Cover("refused")
		return
	}
	vr.Assert(cap.signed, "a successful call signed something")
	got := c03Labelled(cap, label)
	vr.Assert(got != UnknownSignatureAlgorithm, "the output is labelled with an algorithm the parser recognises")
	if requested != 0 {
		vr.Assert(got == requested, "the output is labelled with the requested algorithm")
	}
	isRSA, isPSS, isEC, isEd, h := c03RefAlgo(got)
	vr.Assert((keyKind == 0) == isRSA && (keyKind == 1) == isEC && (keyKind == 2) == isEd, "the labelled algorithm belongs to the signing key's family")
	vr.Assert(cap.pss == isPSS, "RSASSA-PSS padding is used exactly when the output is labelled RSASSA-PSS")
	if isPSS {
		vr.Assert(cap.saltEq, "PSS salt length equals the hash length, as the label's parameters say")
	}
	vr.Assert(cap.optHash == h, "the signer is told the labelled algorithm's hash")
	want := tbs
	if h != 0 {
		want = c03Digest(byte(h), tbs)
	}
	vr.Assert(bytes.Equal(cap.digest, want), "what is signed is the labelled algorithm's hash of the to-be-signed bytes")
	vr.Assert(bytes.Equal(sig.Bytes, []byte{0xaa}) && sig.BitLength == 8, "the signer's output is embedded unchanged")
	vr.Cover("signed")
}

func c03Requested() SignatureAlgorithm {
	return SignatureAlgorithm(vr.Int("requested", 0, int(Ed25519Sig)+1))
}

// verif: covers=signed,refused
func VerifH_C03_sign_certificate_request() {
	cap := &c03Capture{}
	c03SignStubs(cap)
	pub, kind := c03PickKey()
	req := c03Requested()
	tmpl := &CertificateRequest{RawSubject: []byte{0x30, 0x00}, SignatureAlgorithm: req}
	_, err := CreateCertificateRequest(nil, tmpl, c03Signer{pub: pub, cap: cap})
	var out certificateRequest
	if err == nil {
		var ok bool
		out, ok = cap.log[len(cap.log)-1].val.(certificateRequest)
		vr.Assert(ok, "the last thing marshalled is the certificate request")
	}
	c03CheckSigned(cap, kind, req, err, out.SignatureAlgorithm, out.TBSCSR.Raw, out.SignatureValue)
}

// verif: covers=signed,refused
func VerifH_C03_sign_revocation_list() {
	cap := &c03Capture{}
	c03SignStubs(cap)
	pub, kind := c03PickKey()
	req := c03Requested()
	issuer := &Certificate{KeyUsage: KeyUsageCRLSign, SubjectKeyId: []byte{1}, RawSubject: []byte{0x30, 0x00}}
	tmpl := &RevocationList{SignatureAlgorithm: req, Number: big.NewInt(1), ThisUpdate: time.Unix(1000, 0), NextUpdate: time.Unix(2000, 0)}
	_, err := CreateRevocationList(nil, tmpl, issuer, c03Signer{pub: pub, cap: cap})
	var out certificateList
	if err == nil {
		var ok bool
		out, ok = cap.log[len(cap.log)-1].val.(certificateList)
		vr.Assert(ok, "the last thing marshalled is the certificate list")
		vr.Assert(c03Labelled(cap, out.TBSCertList.Signature) == c03Labelled(cap, out.SignatureAlgorithm), "inner and outer signature algorithm agree")
	}
	c03CheckSigned(cap, kind, req, err, out.SignatureAlgorithm, out.TBSCertList.Raw, out.SignatureValue)
}

// verif: covers=signed,refused
func VerifH_C03_sign_certificate() {
	cap := &c03Capture{}
	c03SignStubs(cap)
	pub, kind := c03PickKey()
	req := c03Requested()
	tmpl := &Certificate{SerialNumber: big.NewInt(1), SignatureAlgorithm: req, RawSubject: []byte{0x30, 0x00}, NotBefore: time.Unix(1000, 0), NotAfter: time.Unix(2000, 0)}
	parent := &Certificate{RawSubject: []byte{0x30, 0x00}}
	_, err := CreateCertificate(nil, tmpl, parent, pub, c03Signer{pub: pub, cap: cap})
	var out certificate
	if err == nil {
		var ok bool
		out, ok = cap.log[len(cap.log)-1].val.(certificate)
		vr.Assert(ok, "the last thing marshalled is the certificate")
		vr.Assert(c03Labelled(cap, out.TBSCertificate.SignatureAlgorithm) == c03Labelled(cap, out.SignatureAlgorithm), "inner and outer signature algorithm agree")
	}
	c03CheckSigned(cap, kind, req, err, out.SignatureAlgorithm, out.TBSCertificate.Raw, out.SignatureValue)
}

var _ = errors.New
