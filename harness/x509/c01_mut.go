//go:build verif

package x509

import (
	"bytes"
	"crypto"
	"errors"
	"io"
	"math/big"
	"net"
	"time"

	"github.com/zmap/zcrypto/encoding/asn1"
	vr "github.com/zmap/zcrypto/internal/verifrt"
	"github.com/zmap/zcrypto/rsa"
	"github.com/zmap/zcrypto/x509/ct"
	"github.com/zmap/zcrypto/x509/pkix"
)

// Single-byte mutations of a real certificate: a certificate with an RSA key and
// every extension CreateCertificate can emit is issued inside the harness, one byte
// at an arbitrary position is replaced by an arbitrary value, and the result goes
// through ParseCertificate in both modes (C01 totality, C20 conservativity), the
// parsed fields are compared across modes. The signature primitive is environment
// (arbitrary verdict). (The JSON view of a whole certificate uses package regexp and
// is outside the encoding.)

func c01RichCertificate() []byte {
	pub := &rsa.PublicKey{N: big.NewInt(0xC5A7), E: big.NewInt(65537)}
	tmpl := &Certificate{
		SerialNumber: big.NewInt(0x1234), Subject: pkix.Name{CommonName: "a.example", Organization: []string{"Org"}},
		NotBefore: time.Unix(1600000000, 0), NotAfter: time.Unix(1700000000, 0),
		KeyUsage: KeyUsageDigitalSignature | KeyUsageCertSign, ExtKeyUsage: []ExtKeyUsage{ExtKeyUsageServerAuth},
		BasicConstraintsValid: true, IsCA: true, MaxPathLen: 1,
		SubjectKeyId: []byte{1, 2}, AuthorityKeyId: []byte{3, 4},
		DNSNames: []string{"a.example"}, EmailAddresses: []string{"a@b"}, IPAddresses: []net.IP{{10, 0, 0, 1}},
		OCSPServer: []string{"http://o/"}, CRLDistributionPoints: []string{"http://c/"},
		PolicyIdentifiers:   []asn1.ObjectIdentifier{{2, 23, 140, 1, 2, 1}},
		PermittedDNSNames:   []GeneralSubtreeString{{Data: "example"}},
		ExcludedIPAddresses: []GeneralSubtreeIP{{Data: net.IPNet{IP: net.IP{10, 0, 0, 0}, Mask: net.IPMask{255, 0, 0, 0}}}},
	}
	der, err := CreateCertificate(nil, tmpl, tmpl, pub, c03Signer{pub: pub, cap: &c03Capture{}})
	vr.Assert(err == nil, "the base certificate is issued")
	return der
}

func c01MutStubs() {
	c04Stubs()
	sigOK := vr.Bool("signatureVerifies")
	model := func() error {
		if sigOK {
			return nil
		}
		return rsa.ErrVerification
	}
	vr.Stub("github.com/zmap/zcrypto/rsa.VerifyPKCS1v15", func(pub *rsa.PublicKey, h crypto.Hash, hashed, sig []byte) error { return model() })
	vr.Stub("github.com/zmap/zcrypto/rsa.VerifyPSS", func(pub *rsa.PublicKey, h crypto.Hash, digest, sig []byte, o *rsa.PSSOptions) error { return model() })
}

func c01Mutate(der []byte, lo, hi int) []byte {
	pos := vr.Pick(vr.Int("position", lo, hi-1))
	// every sixteenth position of the part, in both tiers: denser strides were tried in the
	// thorough tier (every second position ran 50+ minutes per property; at every fourth
	// and eighth the solver left branches on some mutated length octets undecided within its cap)
	stride := 16
	vr.Assume((pos-lo)%stride == 0)
	// the digits of the two validity instants are left alone: ValidityPeriod is computed
	// through time.Duration arithmetic (x 10^9, / 10^9) that no back end decides
	for i := 0; i+15 <= len(der); i++ {
		if der[i] == 0x17 && der[i+1] == 0x0d && der[i+14] == 'Z' {
			vr.Assume(pos < i+2 || pos >= i+15)
		}
	}
	out := append([]byte{}, der...)
	out[pos] = vr.U8("value")
	return out
}

func c01ParseMutated(part, parts int) {
	c01MutStubs()
	der := c01RichCertificate()
	lo, hi := len(der)*part/parts, len(der)*(part+1)/parts
	mut := c01Mutate(der, lo, hi)
	var cs, cp *Certificate
	var es, ep error
	panicked := vr.MayPanic(func() {
		asn1.AllowPermissiveParsing = false
		cs, es = ParseCertificate(mut)
		asn1.AllowPermissiveParsing = true
		cp, ep = ParseCertificate(mut)
	})
	asn1.AllowPermissiveParsing = false
	vr.Assert(!panicked, "ParseCertificate does not panic on a mutated certificate in either mode")
	if es != nil {
		if ep == nil {
			vr.Cover("permissive-only")
		} else {
			vr.Cover("both-reject")
		}
		return
	}
	vr.Assert(ep == nil, "what strict mode accepts, permissive mode accepts")
	same := cs.Version == cp.Version && cs.SerialNumber.Cmp(cp.SerialNumber) == 0 && cs.KeyUsage == cp.KeyUsage && cs.IsCA == cp.IsCA &&
		cs.MaxPathLen == cp.MaxPathLen && cs.BasicConstraintsValid == cp.BasicConstraintsValid && cs.SelfSigned == cp.SelfSigned &&
		cs.NotBefore.Equal(cp.NotBefore) && cs.NotAfter.Equal(cp.NotAfter) && cs.SignatureAlgorithm == cp.SignatureAlgorithm &&
		cs.Subject.CommonName == cp.Subject.CommonName && cs.Issuer.CommonName == cp.Issuer.CommonName &&
		c02Same(cs.DNSNames, cp.DNSNames) && c02Same(cs.EmailAddresses, cp.EmailAddresses) && c02Same(cs.OCSPServer, cp.OCSPServer) &&
		c02Same(cs.CRLDistributionPoints, cp.CRLDistributionPoints) && len(cs.IPAddresses) == len(cp.IPAddresses) &&
		len(cs.Extensions) == len(cp.Extensions) && len(cs.ExtKeyUsage) == len(cp.ExtKeyUsage) && len(cs.PolicyIdentifiers) == len(cp.PolicyIdentifiers) &&
		len(cs.PermittedDNSNames) == len(cp.PermittedDNSNames) && len(cs.ExcludedIPAddresses) == len(cp.ExcludedIPAddresses) &&
		bytes.Equal(cs.SubjectKeyId, cp.SubjectKeyId) && bytes.Equal(cs.AuthorityKeyId, cp.AuthorityKeyId) && bytes.Equal(cs.Signature, cp.Signature) &&
		bytes.Equal(cs.FingerprintSHA256, cp.FingerprintSHA256) && bytes.Equal(cs.FingerprintNoCT, cp.FingerprintNoCT)
	vr.Assert(same, "and both modes report the same certificate")
	vr.Cover("strict-ok")
}

// verif: covers=strict-ok,both-reject maxsplit=700
func VerifH_C01_parse_certificate_mutations_a() { c01ParseMutated(0, 3) }

// verif: covers=strict-ok,both-reject maxsplit=700
func VerifH_C01_parse_certificate_mutations_b() { c01ParseMutated(1, 3) }

// verif: covers=strict-ok,both-reject maxsplit=700
func VerifH_C01_parse_certificate_mutations_c() { c01ParseMutated(2, 3) }

// The same harnesses decide C20 for certificates (strict acceptance implies permissive
// acceptance with the same parsed fields).
// verif: covers=strict-ok,both-reject maxsplit=700
func VerifH_C20_parse_certificate_mutations_a() { c01ParseMutated(0, 3) }

// verif: covers=strict-ok,both-reject maxsplit=700
func VerifH_C20_parse_certificate_mutations_b() { c01ParseMutated(1, 3) }

// verif: covers=strict-ok,both-reject maxsplit=700
func VerifH_C20_parse_certificate_mutations_c() { c01ParseMutated(2, 3) }

// C01: the embedded SCT-list extension parser (reached from ParseCertificate for any
// certificate carrying the extension) on an arbitrary OCTET STRING body. The SCT
// deserialiser itself is decided by the ct harnesses and is a stub here.
// verif: covers=accepted,rejected
func VerifH_C01_sct_list_extension_total() {
	sctOK := vr.Bool("sctParses")
	vr.Stub("github.com/zmap/zcrypto/x509/ct.DeserializeSCT", func(r io.Reader) (*ct.SignedCertificateTimestamp, error) {
		if sctOK {
			return &ct.SignedCertificateTimestamp{}, nil
		}
		return nil, errors.New("model: malformed SCT")
	})
	max := 7
	if vr.Tier() == 1 {
		max = 10
	}
	body := vr.Bytes("list", vr.Int("n", 0, max))
	ext := pkix.Extension{Id: oidExtensionSignedCertificateTimestampList, Value: append([]byte{4, byte(len(body))}, body...)}
	var err error
	out := &Certificate{}
	panicked := vr.MayPanic(func() { err = parseSignedCertificateTimestampList(out, ext) })
	vr.Assert(!panicked, "an arbitrary SCT-list extension body never panics the parser")
	if err == nil {
		vr.Cover("accepted")
	} else {
		vr.Cover("rejected")
	}
}
