//go:build verif

package x509

import (
	"net"

	vr "github.com/zmap/zcrypto/internal/verifrt"
	"github.com/zmap/zcrypto/x509/pkix"
)

func c09Lower(b byte) byte {
	if 'A' <= b && b <= 'Z' {
		return b + 'a' - 'A'
	}
	return b
}

// c09RefMatch is the independent reference: label-by-label comparison, one
// trailing dot ignored on each side, ASCII case folding, "*" matches exactly
// one (possibly empty) label.
func c09RefMatch(pattern, host string) bool {
	if len(pattern) > 0 && pattern[len(pattern)-1] == '.' {
		pattern = pattern[:len(pattern)-1]
	}
	if len(host) > 0 && host[len(host)-1] == '.' {
		host = host[:len(host)-1]
	}
	if len(pattern) == 0 || len(host) == 0 {
		return false
	}
	i, j := 0, 0
	for {
		// label extents
		pi := i
		for pi < len(pattern) && pattern[pi] != '.' {
			pi++
		}
		hj := j
		for hj < len(host) && host[hj] != '.' {
			hj++
		}
		pl, hl := pattern[i:pi], host[j:hj]
		if !(len(pl) == 1 && pl[0] == '*') {
			if len(pl) != len(hl) {
				return false
			}
			for k := 0; k < len(pl); k++ {
				if c09Lower(pl[k]) != c09Lower(hl[k]) {
					return false
				}
			}
		}
		pEnd, hEnd := pi == len(pattern), hj == len(host)
		if pEnd || hEnd {
			return pEnd && hEnd
		}
		i, j = pi+1, hj+1
	}
}

func c09ASCII(s string) {
	for i := 0; i < len(s); i++ {
		vr.Assume(s[i] < 0x80)
	}
}

// C09: matchHostnames equals the label-by-label reference on arbitrary bytes
// (no case folding on either side: the caller lower-cases first, see
// VerifH_C09_lowercase and VerifH_C09_verify_hostname).
// verif: covers=match,nomatch
func VerifH_C09_match_hostnames() {
	mp, mh := 3, 4
	if vr.Tier() == 1 {
		mp, mh = 5, 5
	}
	pattern := vr.String("pattern", vr.Int("plen", 0, mp))
	host := vr.String("host", vr.Int("hlen", 0, mh))
	// the reference folds case; make folding the identity on these inputs
	for i := 0; i < len(pattern); i++ {
		vr.Assume(!('A' <= pattern[i] && pattern[i] <= 'Z'))
	}
	for i := 0; i < len(host); i++ {
		vr.Assume(!('A' <= host[i] && host[i] <= 'Z'))
	}
	got := matchHostnames(pattern, host)
	want := c09RefMatch(pattern, host)
	vr.Assert(got == want, "matchHostnames agrees with the label-by-label reference")
	if got {
		vr.Cover("match")
	} else {
		vr.Cover("nomatch")
	}
}

// C09: toLowerCaseASCII folds exactly the ASCII upper-case letters.
// verif: covers=done
func VerifH_C09_lowercase() {
	n := vr.Int("n", 0, 4)
	in := vr.String("in", n)
	out := toLowerCaseASCII(in)
	vr.Assert(len(out) == len(in), "length preserved")
	for i := 0; i < len(in) && i < len(out); i++ {
		vr.Assert(out[i] == c09Lower(in[i]), "byte folded iff ASCII upper-case")
	}
	vr.Cover("done")
}

// C09: VerifyHostname = IP rule when the (bracket-stripped) host parses as an
// IP, otherwise DNS SAN rule, with CN fallback only without a SAN extension.
// net.ParseIP is an uninterpreted function of its argument (nil or a 4-byte IP).
// verif: covers=ip-accept,ip-reject,dns-accept,dns-reject,cn-accept
func VerifH_C09_verify_hostname() {
	vr.Stub("net.ParseIP", func(s string) net.IP {
		r := vr.UF("net.ParseIP", 5, []byte(s))
		if r[0]&1 == 0 {
			return nil
		}
		return net.IP(r[1:5])
	})
	mh, md, mn, mc := 3, 2, 1, 1
	if vr.Tier() == 1 {
		mh, md, mn, mc = 4, 2, 1, 1 // (4,3,2,2) exceeds 200000 paths
	}
	host := vr.String("host", vr.Int("hlen", 0, mh))
	c := &Certificate{}
	nd := vr.Int("ndns", 0, mn)
	for i := 0; i < nd; i++ {
		c.DNSNames = append(c.DNSNames, vr.String("dns", vr.Int("dlen", 0, md)))
	}
	c.Subject.CommonName = vr.String("cn", vr.Int("cnlen", 0, mc))
	hasSAN := vr.Bool("hasSAN")
	if hasSAN {
		c.Extensions = []pkix.Extension{{Id: oidExtensionSubjectAltName}}
	}
	nip := vr.Int("nip", 0, mn)
	for i := 0; i < nip; i++ {
		c.IPAddresses = append(c.IPAddresses, net.IP(vr.Bytes("ip", 4)))
	}
	// Every byte may be any ASCII value (so '.', '*', '[', ']', ':' and both
	// cases are included); non-ASCII bytes are covered for short strings by
	// VerifH_C09_lowercase and VerifH_C09_verify_hostname_bytes.
	c09ASCII(host)
	c09ASCII(c.Subject.CommonName)
	for _, d := range c.DNSNames {
		c09ASCII(d)
	}
	c09VerifyHostnameCheck(c, host, hasSAN)
}

// verif: covers=dns-accept,dns-reject
func VerifH_C09_verify_hostname_bytes() {
	vr.Stub("net.ParseIP", func(s string) net.IP { return nil })
	host := vr.String("host", vr.Int("hlen", 0, 2))
	c := &Certificate{}
	c.DNSNames = []string{vr.String("dns", vr.Int("dlen", 0, 2))}
	c.Extensions = []pkix.Extension{{Id: oidExtensionSubjectAltName}}
	c09VerifyHostnameCheck(c, host, true)
}

func c09VerifyHostnameCheck(c *Certificate, host string, hasSAN bool) {
	err := c.VerifyHostname(host)

	// reference
	cand := host
	if len(host) >= 3 && host[0] == '[' && host[len(host)-1] == ']' {
		cand = host[1 : len(host)-1]
	}
	var want bool
	if ip := net.ParseIP(cand); ip != nil {
		for _, x := range c.IPAddresses {
			if x[0] == ip[0] && x[1] == ip[1] && x[2] == ip[2] && x[3] == ip[3] {
				want = true
			}
		}
		vr.Assert((err == nil) == want, "IP literal: accepted iff equal to an IP SAN")
		if want {
			vr.Cover("ip-accept")
		} else {
			vr.Cover("ip-reject")
		}
		return
	}
	if hasSAN {
		for _, d := range c.DNSNames {
			if c09RefMatch(d, host) {
				want = true
			}
		}
	} else {
		want = c09RefMatch(c.Subject.CommonName, host)
		if want {
			vr.Cover("cn-accept")
		}
	}
	vr.Assert((err == nil) == want, "DNS name: accepted iff a SAN (or, without SAN extension, the CN) matches")
	if hasSAN {
		if want {
			vr.Cover("dns-accept")
		} else {
			vr.Cover("dns-reject")
		}
	}
}
