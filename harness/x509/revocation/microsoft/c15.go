//go:build verif

package microsoft

import (
	"errors"
	"math/big"

	vr "github.com/zmap/zcrypto/internal/verifrt"
	"github.com/zmap/zcrypto/x509"
	"github.com/zmap/zcrypto/x509/pkix"
)

func msStubs(certs map[byte]*x509.Certificate) {
	vr.Stub("(github.com/zmap/zcrypto/x509/pkix.Name).String", func(n pkix.Name) string { return "CN=" + n.CommonName })
	vr.Stub("github.com/zmap/zcrypto/x509.ParseCertificate", func(der []byte) (*x509.Certificate, error) {
		if len(der) == 1 {
			if c, ok := certs[der[0]]; ok {
				return c, nil
			}
		}
		return nil, errors.New("model: not a certificate")
	})
}

func le32(v uint32) []byte { return []byte{byte(v), byte(v >> 8), byte(v >> 16), byte(v >> 24)} }

// C15: a well-formed disallowed-certificate store parses to the issuer lists it
// encodes, and Check reports a certificate exactly when (issuer name, serial) is listed.
// verif: covers=revoked,clear
func VerifH_C15_sst_parse_and_check() {
	certs := map[byte]*x509.Certificate{}
	n := vr.Int("ncerts", 0, 2)
	store := append(le32(0), []byte("CERT")...)
	type ent struct {
		issuer string
		serial byte
	}
	var model []ent
	for i := 0; i < n; i++ {
		e := ent{issuer: vr.String("issuer", 1), serial: vr.U8("serial")}
		model = append(model, e)
		certs[byte(i)] = &x509.Certificate{SerialNumber: big.NewInt(int64(e.serial)), Issuer: pkix.Name{CommonName: e.issuer}}
		if vr.Bool("withProperty") {
			store = append(store, le32(3)...) // a property element to be skipped
			store = append(store, le32(1)...)
			val := vr.Bytes("propvalue", vr.Int("proplen", 0, 2))
			store = append(append(store, le32(uint32(len(val)))...), val...)
		}
		store = append(store, le32(32)...)
		store = append(store, le32(1)...)
		store = append(store, le32(1)...)
		store = append(store, byte(i))
	}
	store = append(store, le32(0)...)
	store = append(store, make([]byte, 8)...)
	msStubs(certs)
	d, err := Parse(store)
	vr.Assert(err == nil && d != nil, "a well-formed store parses")
	q := &x509.Certificate{SerialNumber: big.NewInt(int64(vr.U8("certserial"))), Issuer: pkix.Name{CommonName: vr.String("certissuer", 1)}}
	got := Check(d, q)
	want := false
	for _, e := range model {
		want = want || (e.issuer == q.Issuer.CommonName && big.NewInt(int64(e.serial)).Cmp(q.SerialNumber) == 0)
	}
	vr.Assert((got != nil) == want, "reported exactly when issuer name and serial are listed")
	total := 0
	for _, il := range d.IssuerLists {
		total += len(il.Entries)
	}
	vr.Assert(total == len(model), "every certificate element became one entry")
	if want {
		vr.Cover("revoked")
	} else {
		vr.Cover("clear")
	}
}

// C01: Parse on arbitrary bytes neither panics nor allocates far beyond the input.
// verif: covers=accepted,rejected alloclimit=1048576
func VerifH_C01_sst_parse_total() {
	certs := map[byte]*x509.Certificate{0: {SerialNumber: big.NewInt(1), Issuer: pkix.Name{CommonName: "a"}}}
	msStubs(certs)
	max := 14
	if vr.Tier() == 1 {
		max = 22
	}
	n := vr.Int("n", 0, max)
	body := vr.Bytes("in", n)
	in := append(append(le32(0), []byte("CERT")...), body...)
	d, err := Parse(in)
	vr.Assert((d == nil) != (err == nil), "a store xor an error")
	if err == nil {
		vr.Cover("accepted")
	} else {
		vr.Cover("rejected")
	}
}
