//go:build verif

package google

import (
	"encoding/hex"
	"errors"
	"math/big"

	vr "github.com/zmap/zcrypto/internal/verifrt"
	"github.com/zmap/zcrypto/x509"
)

// C15: CRLSet.Check reports a certificate exactly when its issuer's SPKI hash is
// blocked or its serial is listed under that issuer.
// verif: covers=revoked,clear
func VerifH_C15_crlset_check() {
	set := &CRLSet{IssuerLists: map[string]*IssuerList{}}
	type model struct {
		hash    string
		serials []byte
	}
	var lists []model
	ni := vr.Int("nissuers", 0, 2)
	for i := 0; i < ni; i++ {
		h := vr.String("issuerhash", 1)
		for _, l := range lists {
			vr.Assume(l.hash != h) // map keys are distinct
		}
		il := &IssuerList{SPKIHash: h}
		m := model{hash: h}
		ns := vr.Int("nserials", 0, 2)
		for j := 0; j < ns; j++ {
			s := vr.U8("serial")
			m.serials = append(m.serials, s)
			il.Entries = append(il.Entries, &Entry{SerialNumber: big.NewInt(int64(s))})
		}
		set.IssuerLists[h] = il
		lists = append(lists, m)
	}
	nb := vr.Int("nblocked", 0, 2)
	for i := 0; i < nb; i++ {
		set.BlockedSPKIs = append(set.BlockedSPKIs, vr.String("blocked", 1))
	}
	q := vr.U8("certserial")
	qh := vr.String("queryhash", 1)
	got := set.Check(&x509.Certificate{SerialNumber: big.NewInt(int64(q))}, qh)
	want := false
	for _, b := range set.BlockedSPKIs {
		want = want || b == qh
	}
	for _, l := range lists {
		if l.hash == qh {
			for _, s := range l.serials {
				want = want || s == q
			}
		}
	}
	vr.Assert((got != nil) == want, "reported exactly when the issuer key is blocked or the serial is listed under that issuer")
	if got != nil {
		vr.Assert(got.SerialNumber.Cmp(big.NewInt(int64(q))) == 0, "the reported entry carries the certificate's serial")
		vr.Cover("revoked")
	} else {
		vr.Cover("clear")
	}
}

// C15: a well-formed CRLSet body parses to the issuer lists it encodes.
// verif: covers=done
func VerifH_C15_crlset_parse_roundtrip() {
	seq := int(int32(vr.U32("sequence")))
	vr.Stub("encoding/json.Unmarshal", func(data []byte, v interface{}) error {
		h := v.(*CRLSetHeader)
		h.Sequence, h.NumParents, h.BlockedSPKIs = seq, 2, []string{"blocked"}
		return nil
	})
	hdr := []byte("{}")
	body := []byte{byte(len(hdr)), 0}
	body = append(body, hdr...)
	type model struct {
		hash    [32]byte
		serials [][]byte
	}
	var lists []model
	ni := vr.Int("nissuers", 0, 2)
	for i := 0; i < ni; i++ {
		var m model
		m.hash[0], m.hash[31] = vr.U8("hash-first"), vr.U8("hash-last")
		for _, l := range lists {
			vr.Assume(l.hash != m.hash)
		}
		body = append(body, m.hash[:]...)
		ns := vr.Int("nserials", 0, 2)
		body = append(body, byte(ns), 0, 0, 0)
		for j := 0; j < ns; j++ {
			s := vr.Bytes("serial", vr.Int("serlen", 0, 2))
			m.serials = append(m.serials, s)
			body = append(append(body, byte(len(s))), s...)
		}
		lists = append(lists, m)
	}
	set, err := Parse(body, "v1")
	vr.Assert(err == nil && set != nil, "a well-formed CRLSet parses")
	vr.Assert(set.Sequence == seq && set.NumParents == 2 && len(set.BlockedSPKIs) == 1 && set.Version == "v1", "header fields copied")
	vr.Assert(len(set.IssuerLists) == len(lists), "one list per issuer")
	for _, m := range lists {
		il := set.IssuerLists[hex.EncodeToString(m.hash[:])]
		vr.Assert(il != nil && len(il.Entries) == len(m.serials), "issuer list found under the hex SPKI hash with all its serials")
		for j, s := range m.serials {
			vr.Assert(il.Entries[j].SerialNumber.Cmp(new(big.Int).SetBytes(s)) == 0, "serials decoded big-endian in order")
		}
	}
	vr.Cover("done")
}

// C01: Parse on arbitrary bytes (the JSON header decoder is an arbitrary-result stub).
// verif: covers=accepted,rejected
func VerifH_C01_crlset_parse_total() {
	jsonOK := vr.Bool("headerParses")
	vr.Stub("encoding/json.Unmarshal", func(data []byte, v interface{}) error {
		if !jsonOK {
			return errors.New("model: bad json")
		}
		return nil
	})
	max := 8
	if vr.Tier() == 1 {
		max = 12
	}
	n := vr.Int("n", 0, max)
	in := vr.Bytes("in", n)
	if vr.Bool("withEntry") {
		// make room for one 32-byte issuer hash so the entry loop is reachable
		in = append(append([]byte{0, 0}, make([]byte, 32)...), in...)
	}
	set, err := Parse(in, "v")
	vr.Assert((set == nil) != (err == nil), "a set xor an error")
	if err == nil {
		vr.Cover("accepted")
	} else {
		vr.Cover("rejected")
	}
}
