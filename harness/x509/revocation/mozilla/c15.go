//go:build verif

package mozilla

import (
	"math/big"

	vr "github.com/zmap/zcrypto/internal/verifrt"
	"github.com/zmap/zcrypto/x509"
	"github.com/zmap/zcrypto/x509/pkix"
)

// C15: OneCRL.Check reports a certificate exactly when (issuer name, serial) is
// listed or (subject, key hash) is blocked.
// verif: covers=by-serial,by-key,clear
func VerifH_C15_onecrl_check() {
	vr.Stub("(github.com/zmap/zcrypto/x509/pkix.Name).String", func(n pkix.Name) string { return "CN=" + n.CommonName })
	vr.Stub("github.com/zmap/zcrypto/x509.MarshalPKIXPublicKey", func(pub interface{}) ([]byte, error) {
		return []byte{pub.(byte)}, nil
	})
	vr.Stub("crypto/sha256.Sum256", func(data []byte) [32]byte {
		var out [32]byte
		copy(out[:], vr.UF("sha256", 32, data))
		return out
	})
	c := &OneCRL{IssuerLists: map[string]*IssuerList{}}
	type model struct {
		name    string
		serials []byte
	}
	var lists []model
	ni := vr.Int("nissuers", 0, 2)
	for i := 0; i < ni; i++ {
		name := &pkix.Name{CommonName: vr.String("issuer", 1)}
		for _, l := range lists {
			vr.Assume(l.name != name.CommonName)
		}
		il := &IssuerList{Issuer: name}
		m := model{name: name.CommonName}
		ns := vr.Int("nserials", 0, 2)
		for j := 0; j < ns; j++ {
			s := vr.U8("serial")
			m.serials = append(m.serials, s)
			il.Entries = append(il.Entries, &Entry{SerialNumber: big.NewInt(int64(s)), Issuer: name})
		}
		c.IssuerLists[name.String()] = il
		lists = append(lists, m)
	}
	nb := vr.Int("nblocked", 0, 2)
	for i := 0; i < nb; i++ {
		c.Blocked = append(c.Blocked, &SubjectAndPublicKey{RawSubject: vr.Bytes("blockedsubject", 1), PubKeyHash: vr.Bytes("blockedhash", 32)})
	}
	key := vr.U8("key")
	cert := &x509.Certificate{SerialNumber: big.NewInt(int64(vr.U8("certserial"))), RawSubject: vr.Bytes("subject", 1), PublicKey: key,
		Issuer: pkix.Name{CommonName: vr.String("certissuer", 1)}}
	got := c.Check(cert)
	keyHash := vr.UF("sha256", 32, []byte{key})
	byKey := false
	for _, b := range c.Blocked {
		byKey = byKey || (b.RawSubject[0] == cert.RawSubject[0] && vr.BytesEq(b.PubKeyHash, keyHash))
	}
	bySerial := false
	for _, l := range lists {
		if l.name == cert.Issuer.CommonName {
			for _, s := range l.serials {
				bySerial = bySerial || big.NewInt(int64(s)).Cmp(cert.SerialNumber) == 0
			}
		}
	}
	vr.Assert((got != nil) == (byKey || bySerial), "reported exactly when issuer name and serial are listed or subject and key hash are blocked")
	switch {
	case byKey:
		vr.Assert(got.SubjectAndPublicKey != nil, "blocked keys are reported as subject-and-key entries")
		vr.Cover("by-key")
	case bySerial:
		vr.Assert(got.SerialNumber != nil && got.SerialNumber.Cmp(cert.SerialNumber) == 0, "serial entries carry the serial")
		vr.Cover("by-serial")
	default:
		vr.Cover("clear")
	}
	il := c.FindIssuer(&cert.Issuer)
	found := false
	for _, l := range lists {
		found = found || l.name == cert.Issuer.CommonName
	}
	vr.Assert((il != nil) == found, "FindIssuer finds exactly the listed issuers")
}
