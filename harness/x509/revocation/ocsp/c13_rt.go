//go:build verif

package ocsp

import (
	"bytes"
	"crypto"
	stdhash "hash"
	"io"
	"math/big"
	"time"

	"github.com/zmap/zcrypto/encoding/asn1"
	vr "github.com/zmap/zcrypto/internal/verifrt"
	"github.com/zmap/zcrypto/rsa"
	"github.com/zmap/zcrypto/x509"
	"github.com/zmap/zcrypto/x509/pkix"
	"github.com/zmap/zcrypto/x509/revocation/crl"
)

// C13, round trips through the real DER codec (reflection-driven): CreateRequest ->
// ParseRequest and CreateResponse -> ParseResponse for every status, reason and
// issuer hash. Hash functions are ideal (uninterpreted, one per algorithm), the
// signer returns a token, the clock is fixed.

type c13Hash struct {
	id   byte
	size int
	buf  []byte
}

func (h *c13Hash) Write(p []byte) (int, error) { h.buf = append(h.buf, p...); return len(p), nil }
func (h *c13Hash) Sum(b []byte) []byte {
	return append(b, vr.UF("H", h.size, []byte{h.id}, append([]byte{}, h.buf...))...)
}
func (h *c13Hash) Reset()         { h.buf = nil }
func (h *c13Hash) Size() int      { return h.size }
func (h *c13Hash) BlockSize() int { return 64 }

func c13HashStubs() {
	vr.Stub("crypto/sha1.New", func() stdhash.Hash { return &c13Hash{id: byte(crypto.SHA1), size: 20} })
	vr.Stub("crypto/sha256.New", func() stdhash.Hash { return &c13Hash{id: byte(crypto.SHA256), size: 32} })
	vr.Stub("crypto/sha512.New384", func() stdhash.Hash { return &c13Hash{id: byte(crypto.SHA384), size: 48} })
	vr.Stub("crypto/sha512.New", func() stdhash.Hash { return &c13Hash{id: byte(crypto.SHA512), size: 64} })
	vr.Stub("time.Now", func() time.Time { return time.Unix(1600000030, 0) })
}

type c13Signer struct{ pub *rsa.PublicKey }

func (s c13Signer) Public() crypto.PublicKey { return s.pub }
func (s c13Signer) Sign(_ io.Reader, digest []byte, _ crypto.SignerOpts) ([]byte, error) {
	return []byte{0xaa, 0xbb}, nil
}

func c13Issuer() *x509.Certificate {
	spki, err := asn1.Marshal(struct {
		Algorithm pkix.AlgorithmIdentifier
		PublicKey asn1.BitString
	}{pkix.AlgorithmIdentifier{Algorithm: asn1.ObjectIdentifier{1, 2, 840, 113549, 1, 1, 1}}, asn1.BitString{Bytes: []byte{0x30, 0x03, 0x02, 0x01, 0x23}, BitLength: 40}})
	vr.Assert(err == nil, "model issuer key encodes")
	name, _ := asn1.Marshal(pkix.Name{CommonName: "ca"}.ToRDNSequence())
	return &x509.Certificate{RawSubjectPublicKeyInfo: spki, RawSubject: name, Subject: pkix.Name{CommonName: "ca"}}
}

func c13PickHash(label string) crypto.Hash {
	return []crypto.Hash{0, crypto.SHA1, crypto.SHA256, crypto.SHA384, crypto.SHA512}[vr.Pick(vr.Int(label, 0, 4))]
}

// verif: covers=done
func VerifH_C13_request_roundtrip() {
	c13HashStubs()
	issuer := c13Issuer()
	cert := &x509.Certificate{SerialNumber: big.NewInt([]int64{1, 128, 65536}[vr.Pick(vr.Int("serial", 0, 2))])}
	h := c13PickHash("hash")
	der, err := CreateRequest(cert, issuer, &RequestOptions{Hash: h})
	vr.Assert(err == nil, "the request is created")
	req, err := ParseRequest(der)
	vr.Assert(err == nil, "and parses")
	want := h
	if want == 0 {
		want = crypto.SHA1
	}
	vr.Assert(req.HashAlgorithm == want, "hash algorithm")
	vr.Assert(req.SerialNumber.Cmp(cert.SerialNumber) == 0, "serial number")
	wh := &c13Hash{id: byte(want), size: want.Size()}
	wh.Write(issuer.RawSubject)
	vr.Assert(bytes.Equal(req.IssuerNameHash, wh.Sum(nil)), "issuer name hash is the hash of the issuer's subject")
	wh.Reset()
	wh.Write([]byte{0x30, 0x03, 0x02, 0x01, 0x23})
	vr.Assert(bytes.Equal(req.IssuerKeyHash, wh.Sum(nil)), "issuer key hash is the hash of the issuer's public key bits")
	again, err := req.Marshal()
	vr.Assert(err == nil && bytes.Equal(again, der), "a parsed request marshals back to the same bytes")
	vr.Cover("done")
}

// verif: covers=good,revoked,unknown
func VerifH_C13_response_roundtrip() {
	c13HashStubs()
	issuer := c13Issuer()
	responder := &x509.Certificate{Subject: pkix.Name{CommonName: "responder"}}
	responder.RawSubject, _ = asn1.Marshal(responder.Subject.ToRDNSequence()) // as a parsed responder certificate carries it
	status := []int{Good, Revoked, Unknown}[vr.Pick(vr.Int("status", 0, 2))]
	tmpl := Response{Status: status, SerialNumber: big.NewInt([]int64{1, 128, 65536}[vr.Pick(vr.Int("serial", 0, 2))]),
		ThisUpdate: time.Unix(1600000000, 0), NextUpdate: time.Unix(1600086400, 0), IssuerHash: c13PickHash("issuerHash")}
	if status == Revoked {
		tmpl.RevokedAt = time.Unix(1599990000, 0)
		tmpl.RevocationReason = crl.RevocationReasonCode(vr.Int("reason", 0, 10))
	}
	der, err := CreateResponse(issuer, responder, tmpl, c13Signer{pub: &rsa.PublicKey{N: big.NewInt(35), E: big.NewInt(5)}})
	vr.Assert(err == nil, "the response is created")
	resp, err := ParseResponse(der, nil)
	vr.Assert(err == nil, "and parses")
	vr.Assert(resp.Status == status && resp.SerialNumber.Cmp(tmpl.SerialNumber) == 0, "status and serial number")
	vr.Assert(resp.ThisUpdate.Equal(tmpl.ThisUpdate) && resp.NextUpdate.Equal(tmpl.NextUpdate), "update times")
	vr.Assert(resp.ProducedAt.Equal(time.Unix(1600000020, 0)), "produced-at is the current time truncated to the minute")
	want := tmpl.IssuerHash
	if want == 0 {
		want = crypto.SHA1
	}
	vr.Assert(resp.IssuerHash == want, "issuer hash algorithm")
	vr.Assert(bytes.Equal(resp.Signature, []byte{0xaa, 0xbb}), "the signer's output is carried unchanged")
	vr.Assert(bytes.Equal(resp.RawResponderName, responder.RawSubject), "the responder name is the responder certificate's subject")
	switch status {
	case Good:
		vr.Cover("good")
	case Unknown:
		vr.Cover("unknown")
	case Revoked:
		vr.Assert(resp.RevokedAt.Equal(tmpl.RevokedAt) && resp.RevocationReason == tmpl.RevocationReason, "revocation time and reason")
		vr.Cover("revoked")
	}
}
