//go:build verif

package ocsp

import (
	"bytes"
	"crypto"
	"errors"
	"math/big"
	"time"

	"github.com/zmap/zcrypto/encoding/asn1"
	vr "github.com/zmap/zcrypto/internal/verifrt"
	"github.com/zmap/zcrypto/x509"
	"github.com/zmap/zcrypto/x509/pkix"
)

func c13Sig(key *x509.Certificate, signed, sig []byte) bool {
	return vr.UFBool("sig", key.Raw, signed, sig)
}

// C13: ParseResponse / ParseResponseForCert after the DER layer. Both asn1.Unmarshal
// calls are replaced by a stub that fills the decoded structures with arbitrary
// contents; signatures are a Boolean uninterpreted relation.
// verif: covers=accepted,rejected
func VerifH_C13_parse_response_binds_to_issuer() {
	issuer := &x509.Certificate{Raw: []byte{1}}
	embedded := &x509.Certificate{Raw: []byte{2}, RawTBSCertificate: []byte{0xE2}, Signature: []byte{0x51}}
	vr.Stub("(*github.com/zmap/zcrypto/x509.Certificate).CheckSignature", func(c *x509.Certificate, algo x509.SignatureAlgorithm, signed, sig []byte) error {
		if c13Sig(c, signed, sig) {
			return nil
		}
		return errors.New("model: signature does not verify")
	})
	embParses := vr.Bool("embeddedParses")
	vr.Stub("github.com/zmap/zcrypto/x509.ParseCertificate", func(der []byte) (*x509.Certificate, error) {
		if embParses && len(der) == 1 && der[0] == 2 {
			return embedded, nil
		}
		return nil, errors.New("model: not a certificate")
	})

	// the decoded response (arbitrary contents)
	status := vr.Int("responseStatus", 0, 2)
	basicType := vr.Bool("isBasicType")
	tbs := vr.Bytes("tbs", 2)
	nresp := vr.Int("nresponses", 0, 2)
	type single struct {
		serial         byte
		good, unknown  bool
		critical       bool
		thisUpd, revAt int
		reason         int
		knownHash      bool
	}
	var singles []single
	var br basicResponse
	br.TBSResponseData.Raw = tbs
	// the signature BIT STRING may declare unused bits; the signature value is the
	// bit string read as an integer, i.e. shifted right by that many bits
	sigBytes := vr.Bytes("sig", 2)
	unused := vr.Int("sigUnusedBits", 0, 7)
	vr.Assume(sigBytes[1]&byte(1<<uint(unused)-1) == 0) // DER: unused bits are zero
	br.Signature = asn1.BitString{Bytes: sigBytes, BitLength: 16 - unused}
	sigVal := uint16(sigBytes[0])<<8 | uint16(sigBytes[1])
	sigVal >>= uint(unused)
	wantSig := []byte{byte(sigVal >> 8), byte(sigVal)}
	br.TBSResponseData.ProducedAt = time.Unix(int64(vr.U8("producedAt")), 0)
	tag := vr.Int("responderTag", 0, 2)
	br.TBSResponseData.RawResponderID = asn1.RawValue{Tag: tag, Bytes: vr.Bytes("responder", 1)}
	for i := 0; i < nresp; i++ {
		s := single{serial: vr.U8("serial"), good: vr.Bool("good"), unknown: vr.Bool("unknown"), critical: vr.Bool("criticalExt"),
			thisUpd: int(vr.U8("thisUpdate")), revAt: int(vr.U8("revokedAt")), reason: vr.Int("reason", 0, 10), knownHash: vr.Bool("knownIssuerHash")}
		singles = append(singles, s)
		sr := singleResponse{Good: asn1.Flag(s.good), Unknown: asn1.Flag(s.unknown), ThisUpdate: time.Unix(int64(s.thisUpd), 0)}
		sr.CertID.SerialNumber = big.NewInt(int64(s.serial))
		if s.knownHash {
			sr.CertID.HashAlgorithm.Algorithm = hashOIDs[crypto.SHA1]
		} else {
			sr.CertID.HashAlgorithm.Algorithm = asn1.ObjectIdentifier{1, 2, 3}
		}
		sr.Revoked = revokedInfo{RevocationTime: time.Unix(int64(s.revAt), 0), Reason: asn1.Enumerated(s.reason)}
		if vr.Bool("hasExt") {
			sr.SingleExtensions = []pkix.Extension{{Id: asn1.ObjectIdentifier{1, 2, 3}, Critical: s.critical}}
		} else {
			s.critical = false
			singles[i] = s
		}
		br.TBSResponseData.Responses = append(br.TBSResponseData.Responses, sr)
	}
	hasEmbedded := vr.Bool("hasEmbeddedCert")
	if hasEmbedded {
		br.Certificates = []asn1.RawValue{{FullBytes: []byte{2}}}
	}
	outerOK, innerOK, nameOK := vr.Bool("outerParses"), vr.Bool("innerParses"), vr.Bool("responderParses")
	vr.Stub("github.com/zmap/zcrypto/encoding/asn1.Unmarshal", func(b []byte, val interface{}) ([]byte, error) {
		switch p := val.(type) {
		case *responseASN1:
			if !outerOK {
				return nil, errors.New("model: malformed response")
			}
			p.Status = asn1.Enumerated(status)
			p.Response.Response = []byte{0xBA}
			if basicType {
				p.Response.ResponseType = idPKIXOCSPBasic
			} else {
				p.Response.ResponseType = asn1.ObjectIdentifier{1, 2, 3}
			}
		case *basicResponse:
			if !innerOK {
				return nil, errors.New("model: malformed basic response")
			}
			*p = br
		default:
			if !nameOK {
				return nil, errors.New("model: malformed responder id")
			}
		}
		return nil, nil
	})

	withIssuer := vr.Bool("withIssuer")
	withCert := vr.Bool("forCert")
	var iss, cert *x509.Certificate
	if withIssuer {
		iss = issuer
	}
	certSerial := vr.U8("certSerial")
	if withCert {
		cert = &x509.Certificate{SerialNumber: big.NewInt(int64(certSerial))}
	}
	resp, err := ParseResponseForCert([]byte{0x30}, cert, iss)
	if err != nil {
		vr.Cover("rejected")
		return
	}
	vr.Assert(resp != nil && outerOK && innerOK && status == 0 && basicType, "only successful, well-formed basic responses are accepted")
	// which single response was selected
	sel := -1
	if withCert {
		for i := len(singles) - 1; i >= 0; i-- {
			if singles[i].serial == certSerial {
				sel = i
			}
		}
	} else if len(singles) == 1 {
		sel = 0
	}
	vr.Assert(sel >= 0, "a response is returned only when a single response applies (the only one, or the first whose serial matches)")
	s := singles[sel]
	vr.Assert(resp.SerialNumber.Cmp(big.NewInt(int64(s.serial))) == 0 && resp.ThisUpdate.Equal(time.Unix(int64(s.thisUpd), 0)), "serial and update time of the selected response")
	vr.Assert(!s.critical && s.knownHash, "critical single extensions and unknown issuer-hash algorithms are rejected")
	switch {
	case s.good:
		vr.Assert(resp.Status == Good && !resp.IsRevoked, "good")
	case s.unknown:
		vr.Assert(resp.Status == Unknown && !resp.IsRevoked, "unknown")
	default:
		vr.Assert(resp.Status == Revoked && resp.IsRevoked && resp.RevokedAt.Equal(time.Unix(int64(s.revAt), 0)) && int(resp.RevocationReason) == s.reason, "revoked with time and reason")
	}
	vr.Assert(bytes.Equal(resp.TBSResponseData, tbs) && (tag == 1 || tag == 2) && nameOK, "TBS bytes copied; responder id well-formed")
	// signature binding
	if hasEmbedded {
		vr.Assert(embParses && resp.Certificate == embedded && c13Sig(embedded, tbs, wantSig), "an embedded responder certificate must have signed the response")
		if withIssuer {
			vr.Assert(c13Sig(issuer, embedded.RawTBSCertificate, embedded.Signature), "and must itself be signed by the issuer")
		}
	} else if withIssuer {
		vr.Assert(c13Sig(issuer, tbs, wantSig), "without an embedded certificate the issuer must have signed the response")
	}
	vr.Cover("accepted")
}
