//go:build verif

package crl

import (
	"errors"
	"math/big"
	"time"

	"github.com/zmap/zcrypto/encoding/asn1"
	vr "github.com/zmap/zcrypto/internal/verifrt"
	"github.com/zmap/zcrypto/x509"
	"github.com/zmap/zcrypto/x509/pkix"
)

// c14Serial: an arbitrary integer in (-2^16, 2^16) or a huge value (2^80 + small).
func c14Serial(label string) *big.Int {
	n := new(big.Int).SetBytes(vr.Bytes(label, 2))
	if vr.Bool(label + "-neg") {
		n.Neg(n)
	}
	if vr.Bool(label + "-huge") {
		n.Add(n, new(big.Int).Lsh(big.NewInt(1), 80))
	}
	return n
}

var c14OtherOID = asn1.ObjectIdentifier{1, 2, 3}

func c14List(maxEntries int) (*pkix.CertificateList, []int, []int) {
	cl := &pkix.CertificateList{}
	cl.TBSCertList.Version = vr.Int("version", 0, 1)
	cl.TBSCertList.ThisUpdate = time.Unix(int64(vr.U8("thisUpdate")), 0)
	cl.TBSCertList.NextUpdate = time.Unix(int64(vr.U8("nextUpdate")), 0)
	cl.SignatureValue.Bytes = vr.Bytes("sig", 1)
	n := vr.Int("nrevoked", 0, maxEntries)
	var times []int
	for i := 0; i < n; i++ {
		t := int(vr.U8("revokedAt"))
		times = append(times, t)
		cl.TBSCertList.RevokedCertificates = append(cl.TBSCertList.RevokedCertificates, pkix.RevokedCertificate{SerialNumber: c14Serial("serial"), RevocationTime: time.Unix(int64(t), 0)})
	}
	return cl, times, nil
}

// C14: the linear search reports exactly the listed serials, with the time of the first occurrence.
// verif: covers=revoked,clear
func VerifH_C14_check_crl_linear() {
	vr.Stub("github.com/zmap/zcrypto/encoding/asn1.Unmarshal", func(b []byte, val interface{}) ([]byte, error) {
		return nil, errors.New("model: not reached in this harness")
	})
	max := 2
	if vr.Tier() == 1 {
		max = 3
	}
	cl, times, _ := c14List(max)
	cert := &x509.Certificate{SerialNumber: c14Serial("certserial")}
	ret, err := CheckCRLForCert(cl, cert, nil)
	vr.Assert(err == nil && ret != nil, "lookup succeeds")
	first := -1
	for i := len(cl.TBSCertList.RevokedCertificates) - 1; i >= 0; i-- {
		if cl.TBSCertList.RevokedCertificates[i].SerialNumber.Cmp(cert.SerialNumber) == 0 {
			first = i
		}
	}
	vr.Assert(ret.IsRevoked == (first >= 0), "revoked exactly when the serial occurs among the revoked entries")
	if first >= 0 {
		vr.Assert(ret.RevocationTime.Equal(time.Unix(int64(times[first]), 0)), "revocation time of the first such entry")
		vr.Cover("revoked")
	} else {
		vr.Assert(ret.RevocationTime.IsZero(), "no revocation time when not revoked")
		vr.Cover("clear")
	}
	vr.Assert(ret.Version == cl.TBSCertList.Version && ret.ThisUpdate.Equal(cl.TBSCertList.ThisUpdate) && ret.NextUpdate.Equal(cl.TBSCertList.NextUpdate), "version and update times copied")
	vr.Assert(len(ret.CRLSignatureValue) == 1 && ret.CRLSignatureValue[0] == cl.SignatureValue.Bytes[0], "signature value copied")
}

// C14: a cache built from the same entries gives the same answer (distinct serials).
// verif: covers=revoked,clear
func VerifH_C14_check_crl_cache_agrees() {
	vr.Stub("github.com/zmap/zcrypto/encoding/asn1.Unmarshal", func(b []byte, val interface{}) ([]byte, error) {
		return nil, errors.New("model: not reached in this harness")
	})
	max := 2
	if vr.Tier() == 1 {
		max = 3
	}
	cl, _, _ := c14List(max)
	rcs := cl.TBSCertList.RevokedCertificates
	for i := range rcs {
		for j := i + 1; j < len(rcs); j++ {
			vr.Assume(rcs[i].SerialNumber.Cmp(rcs[j].SerialNumber) != 0) // which duplicate a cache keeps is the builder's choice
		}
	}
	cache := map[string]*pkix.RevokedCertificate{}
	for i := range rcs {
		cache[rcs[i].SerialNumber.String()] = &rcs[i]
	}
	cert := &x509.Certificate{SerialNumber: c14Serial("certserial")}
	lin, _ := CheckCRLForCert(cl, cert, nil)
	cached, err := CheckCRLForCert(cl, cert, cache)
	vr.Assert(err == nil, "cached lookup succeeds")
	vr.Assert(cached.IsRevoked == lin.IsRevoked, "same revoked flag as the linear search")
	vr.Assert(cached.RevocationTime.Equal(lin.RevocationTime), "same revocation time as the linear search")
	if lin.IsRevoked {
		vr.Cover("revoked")
	} else {
		vr.Cover("clear")
	}
}

// C14: CRL number and extension classification.
// verif: covers=done
func VerifH_C14_list_extensions() {
	numOK := vr.Bool("crlNumberParses")
	num := int(int32(vr.U32("crlNumber")))
	vr.Stub("github.com/zmap/zcrypto/encoding/asn1.Unmarshal", func(b []byte, val interface{}) ([]byte, error) {
		if !numOK {
			return nil, errors.New("model: malformed CRL number")
		}
		*(val.(*int)) = num
		return nil, nil
	})
	cl := &pkix.CertificateList{}
	n := vr.Int("next", 0, 2)
	hasNum := false
	var wantCrit, wantOther []int
	for i := 0; i < n; i++ {
		e := pkix.Extension{Critical: vr.Bool("critical"), Value: []byte{byte(i)}}
		if vr.Bool("isCRLNumber") {
			e.Id = crlNumberExtensionOID
			hasNum = true
		} else {
			e.Id = c14OtherOID
			if e.Critical {
				wantCrit = append(wantCrit, i)
			} else {
				wantOther = append(wantOther, i)
			}
		}
		cl.TBSCertList.Extensions = append(cl.TBSCertList.Extensions, e)
	}
	ret, _ := CheckCRLForCert(cl, &x509.Certificate{SerialNumber: big.NewInt(1)}, nil)
	if hasNum && numOK {
		vr.Assert(ret.CRLExtensions.CRLNumber == num, "CRL number copied")
	} else {
		vr.Assert(ret.CRLExtensions.CRLNumber == 0, "no (parseable) CRL number: zero")
	}
	vr.Assert(len(ret.UnknownCriticalCRLExtensions) == len(wantCrit) && len(ret.UnknownCRLExtensions) == len(wantOther), "unknown extensions classified by criticality")
	for i, idx := range wantCrit {
		vr.Assert(ret.UnknownCriticalCRLExtensions[i].Value[0] == byte(idx), "critical unknown extensions in order")
	}
	for i, idx := range wantOther {
		vr.Assert(ret.UnknownCRLExtensions[i].Value[0] == byte(idx), "non-critical unknown extensions in order")
	}
	vr.Cover("done")
}
