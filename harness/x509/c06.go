//go:build verif

package x509

import (
	"bytes"
	"errors"
	stdhash "hash"
	"math/big"

	"github.com/zmap/zcrypto/encoding/asn1"
	vr "github.com/zmap/zcrypto/internal/verifrt"
	"github.com/zmap/zcrypto/x509/pkix"
)

type c06Hash struct{ buf []byte }

func (h *c06Hash) Write(p []byte) (int, error) { h.buf = append(h.buf, p...); return len(p), nil }
func (h *c06Hash) Sum(b []byte) []byte         { return append(b, c06H("sha256", 32, h.buf)...) }
func (h *c06Hash) Reset()                      { h.buf = nil }
func (h *c06Hash) Size() int                   { return 32 }
func (h *c06Hash) BlockSize() int              { return 64 }

func c06H(alg string, n int, data []byte) []byte {
	return vr.UF("H-"+alg, n, append([]byte{}, data...))
}

var c06OtherOID = asn1.ObjectIdentifier{1, 2, 3, 4}

// c06Content: an injective description of what asn1.Marshal(tbs) would encode.
func c06Content(t *tbsCertificate) []byte {
	out := []byte{byte(len(t.Raw)), byte(t.Version)}
	out = append(out, t.Issuer.FullBytes...)
	out = append(out, 0xFE)
	out = append(out, t.Subject.FullBytes...)
	out = append(out, 0xFE)
	out = append(out, t.PublicKey.Raw...)
	out = append(out, 0xFE, byte(len(t.Extensions)))
	for _, e := range t.Extensions {
		out = append(out, byte(len(e.Id)), byte(e.Id[len(e.Id)-1]), byte(len(e.Value)))
		out = append(out, e.Value...)
	}
	return out
}

func c06Stubs(selfSig, namesParse, keyParses bool) {
	vr.Stub("crypto/md5.Sum", func(d []byte) (out [16]byte) { copy(out[:], c06H("md5", 16, d)); return })
	vr.Stub("crypto/sha1.Sum", func(d []byte) (out [20]byte) { copy(out[:], c06H("sha1", 20, d)); return })
	vr.Stub("crypto/sha256.Sum256", func(d []byte) (out [32]byte) { copy(out[:], c06H("sha256", 32, d)); return })
	vr.Stub("crypto/sha256.New", func() stdhash.Hash { return &c06Hash{} })
	vr.Stub("github.com/zmap/zcrypto/encoding/asn1.Marshal", func(v interface{}) ([]byte, error) {
		t := v.(tbsCertificate)
		vr.Assert(t.Raw == nil, "the TBS is re-encoded from its fields, not copied from the input bytes")
		return append([]byte{0x30}, c06Content(&t)...), nil
	})
	vr.Stub("github.com/zmap/zcrypto/encoding/asn1.Unmarshal", func(b []byte, v interface{}) ([]byte, error) {
		if !namesParse {
			return nil, errors.New("model: malformed name")
		}
		return nil, nil
	})
	vr.Stub("github.com/zmap/zcrypto/x509.parsePublicKey", func(a PublicKeyAlgorithm, k *publicKeyInfo) (interface{}, error) {
		if !keyParses {
			return nil, errors.New("model: malformed key")
		}
		return "key", nil
	})
	vr.Stub("(*github.com/zmap/zcrypto/x509.Certificate).CheckSignature", func(c *Certificate, algo SignatureAlgorithm, signed, sig []byte) error {
		vr.Assert(bytes.Equal(signed, c.RawTBSCertificate), "the self-signature is checked over the TBS bytes")
		if selfSig {
			return nil
		}
		return errors.New("model: signature does not verify")
	})
	vr.Stub("github.com/zmap/zcrypto/x509.parseSignedCertificateTimestampList", func(out *Certificate, e pkix.Extension) error { return nil })
}

func c06Cert(exts []pkix.Extension) *certificate {
	in := &certificate{Raw: vr.Bytes("raw", 3)}
	in.TBSCertificate.Raw = vr.Bytes("tbs", 2)
	in.TBSCertificate.Version = vr.Int("version", 0, 2)
	in.TBSCertificate.SerialNumber = big.NewInt(int64(vr.U8("serial")))
	in.TBSCertificate.Issuer.FullBytes = vr.Bytes("issuer", 2)
	in.TBSCertificate.Subject.FullBytes = vr.Bytes("subject", 2)
	in.TBSCertificate.PublicKey.Raw = vr.Bytes("spki", 2)
	in.TBSCertificate.Extensions = exts
	in.SignatureValue = asn1.BitString{Bytes: vr.Bytes("sig", 1), BitLength: 8}
	return in
}

// C06: raw fields, fingerprints, version and the self-signed flag are functions
// of the named parts of the input.
// verif: covers=parsed,refused
func VerifH_C06_certificate_metadata() {
	selfSig, namesParse, keyParses := vr.Bool("selfSignatureVerifies"), vr.Bool("namesParse"), vr.Bool("keyParses")
	c06Stubs(selfSig, namesParse, keyParses)
	in := c06Cert(nil)
	out, err := parseCertificate(in)
	if !namesParse || !keyParses {
		vr.Assert(err != nil, "malformed names or keys are refused")
		vr.Cover("refused")
		return
	}
	vr.Assert(err == nil && out != nil, "parses")
	t := &in.TBSCertificate
	vr.Assert(bytes.Equal(out.Raw, in.Raw) && bytes.Equal(out.RawTBSCertificate, t.Raw) && bytes.Equal(out.RawIssuer, t.Issuer.FullBytes) &&
		bytes.Equal(out.RawSubject, t.Subject.FullBytes) && bytes.Equal(out.RawSubjectPublicKeyInfo, t.PublicKey.Raw), "raw fields are the exact sub-encodings")
	vr.Assert(bytes.Equal(out.FingerprintMD5, c06H("md5", 16, in.Raw)) && bytes.Equal(out.FingerprintSHA1, c06H("sha1", 20, in.Raw)) &&
		bytes.Equal(out.FingerprintSHA256, c06H("sha256", 32, in.Raw)), "certificate fingerprints hash the whole certificate")
	vr.Assert(bytes.Equal(out.SPKIFingerprint, c06H("sha256", 32, t.PublicKey.Raw)), "SPKI fingerprint hashes the SPKI")
	vr.Assert(bytes.Equal(out.TBSCertificateFingerprint, c06H("sha256", 32, t.Raw)), "TBS fingerprint hashes the TBS bytes")
	vr.Assert(bytes.Equal(out.SPKISubjectFingerprint, c06H("sha256", 32, append(append([]byte{}, t.PublicKey.Raw...), t.Subject.FullBytes...))), "SPKI-subject fingerprint hashes SPKI then subject")
	vr.Assert(out.Version == t.Version+1, "version is the encoded version plus one")
	vr.Assert(out.SerialNumber.Cmp(t.SerialNumber) == 0, "serial number")
	vr.Assert(out.SelfSigned == (bytes.Equal(t.Issuer.FullBytes, t.Subject.FullBytes) && selfSig), "self-signed exactly when issuer equals subject and the signature verifies under its own key")
	vr.Assert(bytes.Equal(out.Signature, in.SignatureValue.Bytes), "signature bytes")
	vr.Cover("parsed")
}

// C06: adding or removing CT poison / SCT-list extensions (any position) does not
// change the no-CT fingerprint.
// verif: covers=done
func VerifH_C06_fingerprint_no_ct() {
	c06Stubs(false, true, true)
	n := vr.Int("next", 0, 2)
	var plain, withCT []pkix.Extension
	// each slot takes zero, one or two CT extensions (adjacent ones, repeats and both orders included)
	insert := func() {
		for k := 0; k < 2; k++ {
			switch vr.Pick(vr.Int("ct", 0, 2)) {
			case 1:
				withCT = append(withCT, pkix.Extension{Id: oidExtensionCTPrecertificatePoison, Critical: true, Value: []byte{5, 0}})
			case 2:
				withCT = append(withCT, pkix.Extension{Id: oidExtensionSignedCertificateTimestampList, Value: vr.Bytes("sctlist", 1)})
			}
		}
	}
	for i := 0; i < n; i++ {
		insert()
		e := pkix.Extension{Id: c06OtherOID, Value: vr.Bytes("extvalue", 1)}
		plain = append(plain, e)
		withCT = append(withCT, e)
	}
	insert()
	a := c06Cert(plain)
	b := &certificate{Raw: vr.Bytes("raw2", 3), TBSCertificate: a.TBSCertificate, SignatureValue: a.SignatureValue}
	b.TBSCertificate.Raw = vr.Bytes("tbs2", 2)
	b.TBSCertificate.Extensions = withCT
	ca, err1 := parseCertificate(a)
	cb, err2 := parseCertificate(b)
	vr.Assert(err1 == nil && err2 == nil, "both parse")
	vr.Assert(bytes.Equal(ca.FingerprintNoCT, cb.FingerprintNoCT), "the no-CT fingerprint ignores CT poison and SCT-list extensions")
	vr.Assert(bytes.Equal(ca.FingerprintNoCT, c06H("sha256", 32, append([]byte{0x30}, c06Content(&tbsCertificate{Version: a.TBSCertificate.Version, Issuer: a.TBSCertificate.Issuer,
		Subject: a.TBSCertificate.Subject, PublicKey: a.TBSCertificate.PublicKey, Extensions: plain})...))), "and is the hash of the re-encoded TBS without them")
	vr.Assert(len(cb.Extensions) == len(withCT), "the parsed certificate still lists every extension")
	vr.Cover("done")
}

// C06 end to end through the real codec: a precertificate (CT poison) and the final
// certificate (SCT list) issued from the same template parse to the same no-CT
// fingerprint, different ordinary fingerprints, and every raw field is the
// corresponding slice of the DER input; fingerprints are the ideal hashes of those
// slices.
// verif: covers=done
func VerifH_C06_precert_final_pair() {
	c04Stubs()
	vr.Stub("github.com/zmap/zcrypto/x509.parseSignedCertificateTimestampList", func(out *Certificate, e pkix.Extension) error { return nil })
	tmpl, pub := c04Template()
	tmpl.SubjectKeyId = vr.Bytes("ski", 1)
	tmpl.DNSNames = []string{c04ASCII("dns", 1)}
	other := pkix.Extension{Id: c06OtherOID, Value: []byte{4, 1, vr.U8("other")}}
	poison := pkix.Extension{Id: oidExtensionCTPrecertificatePoison, Critical: true, Value: []byte{5, 0}}
	sct := pkix.Extension{Id: oidExtensionSignedCertificateTimestampList, Value: []byte{4, 3, 0, 1, vr.U8("sct")}}
	place := vr.Pick(vr.Int("ctPosition", 0, 1))
	with := func(ct pkix.Extension) []pkix.Extension {
		if place == 0 {
			return []pkix.Extension{ct, other}
		}
		return []pkix.Extension{other, ct}
	}
	pre, fin := *tmpl, *tmpl
	pre.ExtraExtensions = with(poison)
	fin.ExtraExtensions = with(sct)
	cp := c04Issue(&pre, nil, pub)
	cf := c04Issue(&fin, nil, pub)
	vr.Assert(bytes.Equal(cp.FingerprintNoCT, cf.FingerprintNoCT), "precertificate and final certificate share the no-CT fingerprint")
	plain := *tmpl
	plain.ExtraExtensions = []pkix.Extension{other}
	c0 := c04Issue(&plain, nil, pub)
	vr.Assert(bytes.Equal(c0.FingerprintNoCT, cf.FingerprintNoCT), "which is that of the certificate without CT extensions")
	vr.Assert(cp.IsPrecert && !cf.IsPrecert, "the poison marks the precertificate")
	for _, c := range []*Certificate{cp, cf} {
		vr.Assert(bytes.Contains(c.Raw, c.RawTBSCertificate) && bytes.Contains(c.RawTBSCertificate, c.RawSubjectPublicKeyInfo) &&
			bytes.Contains(c.RawTBSCertificate, c.RawSubject) && bytes.Contains(c.RawTBSCertificate, c.RawIssuer), "raw fields are slices of the input")
		vr.Assert(bytes.Equal(c.FingerprintSHA256, c06H("sha256", 32, c.Raw)) && bytes.Equal(c.FingerprintSHA1, c06H("sha1", 20, c.Raw)) && bytes.Equal(c.FingerprintMD5, c06H("md5", 16, c.Raw)), "certificate fingerprints hash the whole input")
		vr.Assert(bytes.Equal(c.SPKIFingerprint, c06H("sha256", 32, c.RawSubjectPublicKeyInfo)) && bytes.Equal(c.TBSCertificateFingerprint, c06H("sha256", 32, c.RawTBSCertificate)), "SPKI and TBS fingerprints hash their slices")
	}
	vr.Cover("done")
}
