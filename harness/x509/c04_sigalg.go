//go:build verif

package x509

import (
	"crypto/ecdsa"
	"crypto/ed25519"
	"crypto/elliptic"
	"crypto/rsa"
	"math/big"

	vr "github.com/zmap/zcrypto/internal/verifrt"
)

// C04/C03: the (hash, algorithm identifier) pair chosen for a signing key — by default or
// on request — is one row of signatureAlgorithmDetails for that key family, i.e. exactly
// what the parser and CheckSignature will assume when they see the identifier. A default
// that hashes with one function and labels another yields certificates whose signature
// does not verify.
// verif: covers=chosen,refused
func VerifH_C04_signing_params_match_the_label() {
	var pub interface{}
	var family PublicKeyAlgorithm
	switch vr.Pick(vr.Int("key", 0, 5)) {
	case 0:
		pub, family = &rsa.PublicKey{N: big.NewInt(35), E: 5}, RSA
	case 1:
		pub, family = &ecdsa.PublicKey{Curve: elliptic.P224()}, ECDSA
	case 2:
		pub, family = &ecdsa.PublicKey{Curve: elliptic.P256()}, ECDSA
	case 3:
		pub, family = &ecdsa.PublicKey{Curve: elliptic.P384()}, ECDSA
	case 4:
		pub, family = &ecdsa.PublicKey{Curve: elliptic.P521()}, ECDSA
	default:
		pub, family = ed25519.PublicKey(make([]byte, 32)), Ed25519
	}
	requested := SignatureAlgorithm(vr.Pick(vr.Int("requested", 0, 17)))
	h, ai, err := signingParamsForPublicKey(pub, requested)
	if err != nil {
		vr.Cover("refused")
		return
	}
	rows := 0
	for _, d := range signatureAlgorithmDetails {
		if d.oid.Equal(ai.Algorithm) && d.pubKeyAlgo == family {
			if requested != 0 && d.algo != requested {
				continue
			}
			if d.algo.isRSAPSS() && requested == 0 {
				continue
			}
			rows++
			vr.Assert(d.hash == h, "the hash handed to the signer is the hash of the labelled algorithm")
		}
	}
	vr.Assert(rows >= 1, "the label is a known algorithm of the signing key's family")
	vr.Cover("chosen")
}
