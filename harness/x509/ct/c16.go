//go:build verif

package ct

import (
	"bytes"

	vr "github.com/zmap/zcrypto/internal/verifrt"
)

// c16Bytes: arbitrary short byte string, or a filler of a boundary length (zero
// content with symbolic ends) because only the length arithmetic is under test there.
func c16Bytes(label string, maxShort int, fillers ...int) []byte {
	if len(fillers) > 0 && vr.Bool(label+"-filler") {
		n := fillers[vr.Pick(vr.Int(label+"-fillersize", 0, len(fillers)-1))]
		b := make([]byte, n)
		b[0], b[n-1] = vr.U8(label), vr.U8(label)
		return b
	}
	return vr.Bytes(label, vr.Int(label+"#", 0, maxShort))
}

// verif: covers=roundtrip,refused
func VerifH_C16_x509ct_digitally_signed_roundtrip() {
	ds := DigitallySigned{HashAlgorithm: HashAlgorithm(vr.U8("hash")), SignatureAlgorithm: SignatureAlgorithm(vr.U8("sigalg")),
		Signature: c16Bytes("sig", 3, 65535, 65536)}
	out, err := MarshalDigitallySigned(ds)
	if err != nil {
		vr.Cover("refused")
		return
	}
	vr.Assert(len(out) == 2+2+len(ds.Signature), "serialised length")
	got, err := UnmarshalDigitallySigned(bytes.NewReader(out))
	vr.Assert(err == nil && got != nil, "serialised value deserialises")
	vr.Assert(got.HashAlgorithm == ds.HashAlgorithm && got.SignatureAlgorithm == ds.SignatureAlgorithm && bytes.Equal(got.Signature, ds.Signature), "to the same value")
	vr.Cover("roundtrip")
}

// DeserializeSCT on the reference encoding of a symbolic SCT (x509/ct copy).
// verif: covers=done
func VerifH_C16_x509ct_sct_deserialize() {
	ts := vr.U64("timestamp")
	ext := vr.Bytes("ext", vr.Int("ext#", 0, 2))
	sig := vr.Bytes("sig", vr.Int("sig#", 0, 2))
	var logID [32]byte
	logID[0], logID[31] = vr.U8("logid-first"), vr.U8("logid-last")
	h, a := vr.U8("hash"), vr.U8("sigalg")
	in := append([]byte{0}, logID[:]...)
	for i := 7; i >= 0; i-- {
		in = append(in, byte(ts>>(8*uint(i))))
	}
	in = append(append(in, 0, byte(len(ext))), ext...)
	in = append(append(in, h, a, 0, byte(len(sig))), sig...)
	got, err := DeserializeSCT(bytes.NewReader(in))
	vr.Assert(err == nil && got != nil, "a well-formed SCT parses")
	vr.Assert(got.SCTVersion == V1 && got.LogID == logID && got.Timestamp == ts && bytes.Equal(got.Extensions, ext) &&
		uint8(got.Signature.HashAlgorithm) == h && uint8(got.Signature.SignatureAlgorithm) == a && bytes.Equal(got.Signature.Signature, sig), "to the encoded value")
	vr.Cover("done")
}
