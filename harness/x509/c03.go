//go:build verif

package x509

import (
	"crypto"
	"crypto/ecdsa"
	"crypto/ed25519"
	"errors"
	stdhash "hash"
	"math/big"

	"github.com/zmap/zcrypto/dsa"
	vr "github.com/zmap/zcrypto/internal/verifrt"
	"github.com/zmap/zcrypto/rsa"
)

type c03Hash struct {
	id   byte
	size int
	buf  []byte
}

func (h *c03Hash) Write(p []byte) (int, error) { h.buf = append(h.buf, p...); return len(p), nil }
func (h *c03Hash) Sum(b []byte) []byte         { return append(b, c03Digest(h.id, h.buf)...) }
func (h *c03Hash) Reset()                      { h.buf = nil }
func (h *c03Hash) Size() int                   { return h.size }
func (h *c03Hash) BlockSize() int              { return 64 }

func c03Digest(id byte, data []byte) []byte {
	return vr.UF("H", 2, []byte{id}, append([]byte{}, data...))
}

func c03Stubs(r, s *big.Int, derOK bool, rest int) {
	vr.Stub("crypto/md5.New", func() stdhash.Hash { return &c03Hash{id: byte(crypto.MD5), size: 2} })
	vr.Stub("crypto/sha1.New", func() stdhash.Hash { return &c03Hash{id: byte(crypto.SHA1), size: 2} })
	vr.Stub("crypto/sha256.New", func() stdhash.Hash { return &c03Hash{id: byte(crypto.SHA256), size: 2} })
	vr.Stub("crypto/sha512.New384", func() stdhash.Hash { return &c03Hash{id: byte(crypto.SHA384), size: 2} })
	vr.Stub("crypto/sha512.New", func() stdhash.Hash { return &c03Hash{id: byte(crypto.SHA512), size: 2} })
	vr.Stub("github.com/zmap/zcrypto/rsa.VerifyPKCS1v15", func(pub *rsa.PublicKey, h crypto.Hash, digest, sig []byte) error {
		if vr.UFBool("rsa-pkcs1", []byte{byte(h)}, digest, sig) {
			return nil
		}
		return errors.New("model: bad signature")
	})
	vr.Stub("github.com/zmap/zcrypto/rsa.VerifyPSS", func(pub *rsa.PublicKey, h crypto.Hash, digest, sig []byte, opts *rsa.PSSOptions) error {
		if opts != nil && opts.SaltLength == rsa.PSSSaltLengthEqualsHash && vr.UFBool("rsa-pss", []byte{byte(h)}, digest, sig) {
			return nil
		}
		return errors.New("model: bad signature")
	})
	vr.Stub("github.com/zmap/zcrypto/dsa.Verify", func(pub *dsa.PublicKey, digest []byte, r, s *big.Int) bool {
		return vr.UFBool("dsa", digest, r.Bytes(), s.Bytes())
	})
	vr.Stub("crypto/ecdsa.Verify", func(pub *ecdsa.PublicKey, digest []byte, r, s *big.Int) bool {
		return vr.UFBool("ecdsa", digest, r.Bytes(), s.Bytes())
	})
	vr.Stub("crypto/ed25519.Verify", func(pub ed25519.PublicKey, msg, sig []byte) bool {
		if len(pub) != ed25519.PublicKeySize {
			panic("ed25519: bad public key length") // documented contract of ed25519.Verify
		}
		return vr.UFBool("ed25519", msg, sig)
	})
	vr.Stub("github.com/zmap/zcrypto/encoding/asn1.Unmarshal", func(b []byte, val interface{}) ([]byte, error) {
		if !derOK {
			return nil, errors.New("model: not a DER (r,s) pair")
		}
		switch p := val.(type) {
		case *dsaSignature:
			p.R, p.S = r, s
		case *ecdsaSignature:
			p.R, p.S = r, s
		}
		return make([]byte, rest), nil
	})
}

// C03: CheckSignatureFromKey succeeds exactly when the algorithm's family matches
// the key, the primitive accepts and the digest handed to it is the algorithm's
// hash of the signed bytes (reference table written from RFC 5280 / 8410 / 4055).
// verif: covers=accepted,rejected
func VerifH_C03_check_signature_from_key() {
	rr, ss := big.NewInt(int64(int8(vr.U8("r")))), big.NewInt(int64(int8(vr.U8("s"))))
	derOK := vr.Bool("sigIsDER")
	rest := vr.Int("trailing", 0, 1)
	c03Stubs(rr, ss, derOK, rest)
	algo := SignatureAlgorithm(int(int8(vr.U8("algo"))))
	var key interface{}
	edLen := 0
	kind := vr.Pick(vr.Int("keytype", 0, 6))
	switch kind {
	case 0:
		key = &rsa.PublicKey{}
	case 1:
		key = &dsa.PublicKey{}
	case 2:
		key = &ecdsa.PublicKey{}
	case 3:
		key = &AugmentedECDSA{Pub: &ecdsa.PublicKey{}}
	case 4:
		// parsePublicKey accepts any Ed25519 subjectPublicKey of at most 32 bytes
		edLen = []int{0, 31, 32}[vr.Pick(vr.Int("edKeyLen", 0, 2))]
		key = ed25519.PublicKey(make([]byte, edLen))
	case 5:
		key = nil
	case 6:
		key = "other"
	}
	signed := vr.Bytes("signed", vr.Int("signedLen", 0, 2))
	sig := vr.Bytes("sig", vr.Int("sigLen", 0, 2))
	var err error
	panicked := vr.MayPanic(func() { err = CheckSignatureFromKey(key, algo, signed, sig) })
	vr.Assert(!panicked, "checking a signature against any parsed key does not panic")

	// reference table
	const (
		famNone = iota
		famPKCS1
		famPSS
		famDSA
		famECDSA
		famEd
	)
	fam, h := famNone, crypto.Hash(0)
	switch algo {
	case MD5WithRSA:
		fam, h = famPKCS1, crypto.MD5
	case SHA1WithRSA:
		fam, h = famPKCS1, crypto.SHA1
	case SHA256WithRSA:
		fam, h = famPKCS1, crypto.SHA256
	case SHA384WithRSA:
		fam, h = famPKCS1, crypto.SHA384
	case SHA512WithRSA:
		fam, h = famPKCS1, crypto.SHA512
	case SHA256WithRSAPSS:
		fam, h = famPSS, crypto.SHA256
	case SHA384WithRSAPSS:
		fam, h = famPSS, crypto.SHA384
	case SHA512WithRSAPSS:
		fam, h = famPSS, crypto.SHA512
	case DSAWithSHA1:
		fam, h = famDSA, crypto.SHA1
	case DSAWithSHA256:
		fam, h = famDSA, crypto.SHA256
	case ECDSAWithSHA1:
		fam, h = famECDSA, crypto.SHA1
	case ECDSAWithSHA256:
		fam, h = famECDSA, crypto.SHA256
	case ECDSAWithSHA384:
		fam, h = famECDSA, crypto.SHA384
	case ECDSAWithSHA512:
		fam, h = famECDSA, crypto.SHA512
	case Ed25519Sig:
		fam = famEd
	}
	digest := signed
	if h != 0 {
		digest = c03Digest(byte(h), signed)
	}
	rsOK := derOK && rr.Sign() > 0 && ss.Sign() > 0
	want := false
	switch {
	case fam == famPKCS1 && kind == 0:
		want = vr.UFBool("rsa-pkcs1", []byte{byte(h)}, digest, sig)
	case fam == famPSS && kind == 0:
		want = vr.UFBool("rsa-pss", []byte{byte(h)}, digest, sig)
	case fam == famDSA && kind == 1:
		want = rsOK && rest == 0 && vr.UFBool("dsa", digest, rr.Bytes(), ss.Bytes())
	case fam == famECDSA && kind == 2:
		want = rsOK && rest == 0 && vr.UFBool("ecdsa", digest, rr.Bytes(), ss.Bytes())
	case fam == famECDSA && kind == 3:
		want = rsOK && vr.UFBool("ecdsa", digest, rr.Bytes(), ss.Bytes())
	case fam == famEd && kind == 4:
		want = edLen == ed25519.PublicKeySize && vr.UFBool("ed25519", digest, sig)
	}
	if fam != famNone && !want && err == nil {
		// accepted although the reference refuses: is it an algorithm/key family mismatch?
		mismatch := !((fam == famPKCS1 || fam == famPSS) && kind == 0) && !(fam == famDSA && kind == 1) && !(fam == famECDSA && (kind == 2 || kind == 3)) && !(fam == famEd && kind == 4)
		vr.KnownFinding("C03-signature-algorithm-key-family-mismatch-accepted", mismatch)
	}
	vr.Assert((err == nil) == want, "verifies exactly when key family, hash and primitive of the claimed algorithm accept")
	if err == nil {
		vr.Cover("accepted")
	} else {
		vr.Cover("rejected")
	}
}

// C03: dsa.Verify refuses out-of-range signature values and a zero prime.
// verif: covers=in-range,refused
func VerifH_C03_dsa_range_checks() {
	mk := func(label string) *big.Int {
		n := big.NewInt(int64(vr.U8(label)))
		if vr.Bool(label + "-neg") {
			n.Neg(n)
		}
		return n
	}
	pub := &dsa.PublicKey{Y: big.NewInt(3)}
	pub.P, pub.Q, pub.G = mk("P"), mk("Q"), big.NewInt(2)
	r, s := mk("r"), mk("s")
	ok := dsa.Verify(pub, vr.Bytes("hash", 1), r, s)
	inRange := pub.P.Sign() != 0 && r.Sign() >= 1 && r.Cmp(pub.Q) < 0 && s.Sign() >= 1 && s.Cmp(pub.Q) < 0
	if !inRange {
		vr.Assert(!ok, "r or s outside [1, q-1], or P = 0, never verifies")
		vr.Cover("refused")
	} else {
		vr.Cover("in-range")
	}
}

// C03: dsa.Verify over a real (toy) group — p = 263, q = 131, g = 4, x = 3 — with an
// one-byte digest from {0x2a, 0, 0xff} and arbitrary 16-bit signed r, s: nothing outside 0 < r, s < q is
// accepted, and some signature is (reachability of the arithmetic). Modular
// exponentiation and inversion over these small concrete moduli are encoded exactly
// (if-then-else tables), so a counterexample is a real forgery that replays natively.
// verif: covers=accepted,rejected,out-of-range maxsplit=600
func VerifH_C03_dsa_toy_group() {
	const p, q, g, y = 263, 131, 4, 64
	pub := &dsa.PublicKey{Y: big.NewInt(y)}
	pub.P, pub.Q, pub.G = big.NewInt(p), big.NewInt(q), big.NewInt(g)
	z := []byte{0x2a, 0x00, 0xff}[vr.Pick(vr.Int("digest", 0, 2))]
	r := int64(int16(vr.U16("r")))
	// s is case-split (every value in the thorough tier, the boundaries and a few
	// interior points in the quick tier); r stays symbolic.
	var s int64
	if vr.Tier() == 1 {
		s = int64(vr.Pick(vr.Int("s", -2, 2*p+1)))
	} else {
		s = []int64{-1, 0, 1, 2, 57, 100, q - 1, q, q + 1, q + 2, q + 57, 2*q - 1, p - 1, p, p + 1, 2 * p}[vr.Pick(vr.Int("s", 0, 15))]
	}
	ok := dsa.Verify(pub, []byte{z}, big.NewInt(r), big.NewInt(s))
	if !(r > 0 && r < q && s > 0 && s < q) {
		vr.Assert(!ok, "r or s outside [1, q-1] never verifies")
		vr.Cover("out-of-range")
	} else if ok {
		vr.Cover("accepted")
	} else {
		vr.Cover("rejected")
	}
}
