//go:build verif

package x509

import (
	"bytes"
	"crypto/ed25519"
	stdhash "hash"
	"math/big"
	"net"
	"time"

	"github.com/zmap/zcrypto/encoding/asn1"

	vr "github.com/zmap/zcrypto/internal/verifrt"
	"github.com/zmap/zcrypto/x509/pkix"
)

// C04: CreateCertificate -> ParseCertificate on templates with symbolic contents.
// The real extension builder, the reflection-driven DER marshaller and parser and
// parseCertificate are executed; only the signature primitive is environment (an
// ideal Ed25519: the signer returns a token, ed25519.Verify is an uninterpreted
// relation over (key, message, signature)).

type c04Signer struct{ pub ed25519.PublicKey }

func c04Stubs() {
	// fingerprints: ideal hashes
	vr.Stub("crypto/md5.Sum", func(d []byte) (out [16]byte) { copy(out[:], c06H("md5", 16, d)); return })
	vr.Stub("crypto/sha1.Sum", func(d []byte) (out [20]byte) { copy(out[:], c06H("sha1", 20, d)); return })
	vr.Stub("crypto/sha256.Sum256", func(d []byte) (out [32]byte) { copy(out[:], c06H("sha256", 32, d)); return })
	vr.Stub("crypto/sha256.New", func() stdhash.Hash { return &c06Hash{} })
	vr.Stub("crypto/ed25519.Verify", func(pub ed25519.PublicKey, msg, sig []byte) bool {
		if len(pub) != ed25519.PublicKeySize {
			panic("ed25519: bad public key length")
		}
		return vr.UFBool("ed25519", pub, msg, sig)
	})
}

func c04Template() (*Certificate, ed25519.PublicKey) {
	pub := ed25519.PublicKey(make([]byte, 32))
	pub[0] = 7
	return &Certificate{
		SerialNumber: big.NewInt(5),
		Subject:      pkix.Name{CommonName: "leaf"},
		NotBefore:    time.Unix(1600000000, 0), NotAfter: time.Unix(1700000000, 0),
	}, pub
}

// c04Issue creates the certificate (self-signed when parent is nil) and parses it back.
func c04Issue(tmpl, parent *Certificate, pub ed25519.PublicKey) *Certificate {
	if parent == nil {
		parent = tmpl
	}
	der, err := CreateCertificate(nil, tmpl, parent, pub, c03Signer{pub: pub, cap: &c03Capture{}})
	vr.Assert(err == nil, "a template in the documented domain is issued")
	c, err := ParseCertificate(der)
	vr.Assert(err == nil, "the issued certificate parses")
	return c
}

func c04ASCII(label string, max int) string {
	s := vr.String(label, vr.Int(label+"-len", 1, max))
	for i := 0; i < len(s); i++ {
		vr.Assume(s[i] >= 0x21 && s[i] < 0x7f)
	}
	return s
}

// verif: covers=done
func VerifH_C04_basic_constraints_serial_keyids() {
	c04Stubs()
	tmpl, pub := c04Template()
	tmpl.SerialNumber = big.NewInt([]int64{1, 128, 1 << 62}[vr.Pick(vr.Int("serial", 0, 2))])
	tmpl.BasicConstraintsValid = vr.Bool("bcValid")
	if tmpl.BasicConstraintsValid {
		tmpl.IsCA = vr.Bool("isCA")
		tmpl.MaxPathLen = vr.Int("maxPathLen", -1, 2)
		tmpl.MaxPathLenZero = vr.Bool("maxPathLenZero")
		vr.Assume(!tmpl.MaxPathLenZero || tmpl.MaxPathLen == 0) // the flag only qualifies a zero MaxPathLen
	}
	if vr.Bool("hasSKI") {
		tmpl.SubjectKeyId = vr.Bytes("ski", 2)
	}
	if vr.Bool("hasAKI") {
		tmpl.AuthorityKeyId = vr.Bytes("aki", 2)
	}
	c := c04Issue(tmpl, nil, pub)
	vr.Assert(c.SerialNumber.Cmp(tmpl.SerialNumber) == 0, "serial number")
	vr.Assert(c.BasicConstraintsValid == tmpl.BasicConstraintsValid && c.IsCA == tmpl.IsCA, "basic constraints")
	if tmpl.BasicConstraintsValid {
		// documented: MaxPathLen 0 with MaxPathLenZero false means "unset" (-1 after parsing)
		want := tmpl.MaxPathLen
		if want == 0 && !tmpl.MaxPathLenZero {
			want = -1
		}
		vr.Assert(c.MaxPathLen == want, "path length limit")
		vr.Assert(c.MaxPathLenZero == (want == 0), "explicit zero path length")
	}
	vr.Assert(bytes.Equal(c.SubjectKeyId, tmpl.SubjectKeyId) && bytes.Equal(c.AuthorityKeyId, tmpl.AuthorityKeyId), "key identifiers")
	vr.Assert(c.Subject.CommonName == "leaf" && c.Issuer.CommonName == "leaf", "names")
	vr.Assert(c.NotBefore.Equal(tmpl.NotBefore) && c.NotAfter.Equal(tmpl.NotAfter), "validity")
	vr.Assert(c.Version == 3, "version 3")
	vr.Cover("done")
}

// verif: covers=done
func VerifH_C04_key_usage_and_ext_key_usage() {
	c04Stubs()
	tmpl, pub := c04Template()
	tmpl.KeyUsage = []KeyUsage{0, KeyUsageDigitalSignature, KeyUsageEncipherOnly, KeyUsageDecipherOnly, 0x1ff, KeyUsageCertSign | KeyUsageCRLSign, KeyUsageDecipherOnly | KeyUsageDigitalSignature}[vr.Pick(vr.Int("keyUsage", 0, 6))]
	all := []ExtKeyUsage{ExtKeyUsageAny, ExtKeyUsageServerAuth, ExtKeyUsageClientAuth, ExtKeyUsageOcspSigning}
	for i, u := range all[:2+2*vr.Tier()] {
		if vr.Bool("eku" + string(rune('0'+i))) {
			tmpl.ExtKeyUsage = append(tmpl.ExtKeyUsage, u)
		}
	}
	if vr.Bool("unknownEKU") {
		tmpl.UnknownExtKeyUsage = append(tmpl.UnknownExtKeyUsage, []int{1, 2, 840, []int{7, 113549}[vr.Pick(vr.Int("ekuArc", 0, 1))]})
	}
	c := c04Issue(tmpl, nil, pub)
	vr.Assert(c.KeyUsage == tmpl.KeyUsage, "key usage")
	vr.Assert(len(c.ExtKeyUsage) == len(tmpl.ExtKeyUsage) && len(c.UnknownExtKeyUsage) == len(tmpl.UnknownExtKeyUsage), "extended key usage counts")
	for i := range tmpl.ExtKeyUsage {
		vr.Assert(c.ExtKeyUsage[i] == tmpl.ExtKeyUsage[i], "extended key usages in order")
	}
	for i := range tmpl.UnknownExtKeyUsage {
		vr.Assert(c.UnknownExtKeyUsage[i].Equal(tmpl.UnknownExtKeyUsage[i]), "unknown extended key usages")
	}
	vr.Cover("done")
}

// verif: covers=done
func VerifH_C04_subject_alt_names() {
	c04Stubs()
	tmpl, pub := c04Template()
	if vr.Bool("hasDNS") {
		tmpl.DNSNames = []string{c04ASCII("dns", 2), "b.example"}
	}
	if vr.Bool("hasEmail") {
		tmpl.EmailAddresses = []string{c04ASCII("email", 2)}
	}
	ipForm := vr.Pick(vr.Int("ipForm", 0, 3))
	var ip net.IP
	switch ipForm {
	case 1:
		ip = net.IP(vr.Bytes("ip4", 4))
	case 2: // an IPv4 address in 16-byte form
		ip = net.IP(append([]byte{0, 0, 0, 0, 0, 0, 0, 0, 0, 0, 0xff, 0xff}, vr.Bytes("ip4in16", 4)...))
	case 3:
		ip = net.IP(append(vr.Bytes("ip6", 2), make([]byte, 14)...))
		vr.Assume(ip.To4() == nil)
	}
	if ip != nil {
		tmpl.IPAddresses = []net.IP{ip}
	}
	c := c04Issue(tmpl, nil, pub)
	vr.Assert(len(c.DNSNames) == len(tmpl.DNSNames) && len(c.EmailAddresses) == len(tmpl.EmailAddresses) && len(c.IPAddresses) == len(tmpl.IPAddresses), "SAN counts")
	for i := range tmpl.DNSNames {
		vr.Assert(c.DNSNames[i] == tmpl.DNSNames[i], "DNS names")
	}
	for i := range tmpl.EmailAddresses {
		vr.Assert(c.EmailAddresses[i] == tmpl.EmailAddresses[i], "email addresses")
	}
	for i := range tmpl.IPAddresses {
		vr.Assert(c.IPAddresses[i].Equal(tmpl.IPAddresses[i]), "IP addresses (4- and 16-byte forms of an IPv4 address are the same address)")
	}
	vr.Cover("done")
}

// verif: covers=done
func VerifH_C04_aia_crldp_policies() {
	c04Stubs()
	tmpl, pub := c04Template()
	if vr.Bool("hasOCSP") {
		tmpl.OCSPServer = []string{c04ASCII("ocsp", 2)}
	}
	if vr.Bool("hasIssuerURL") {
		tmpl.IssuingCertificateURL = []string{c04ASCII("caIssuers", 2), "http://x/"}
	}
	if vr.Bool("hasCRLDP") {
		tmpl.CRLDistributionPoints = []string{c04ASCII("crldp", 2)}
		if vr.Bool("twoCRLDP") {
			tmpl.CRLDistributionPoints = append(tmpl.CRLDistributionPoints, "http://y/")
		}
	}
	if vr.Bool("hasPolicy") {
		tmpl.PolicyIdentifiers = []asn1.ObjectIdentifier{{2, 23, 140, 1, []int{2, 300}[vr.Pick(vr.Int("policyArc", 0, 1))]}}
	}
	c := c04Issue(tmpl, nil, pub)
	vr.Assert(c02Same(c.OCSPServer, tmpl.OCSPServer) && c02Same(c.IssuingCertificateURL, tmpl.IssuingCertificateURL), "authority information access URLs")
	vr.Assert(c02Same(c.CRLDistributionPoints, tmpl.CRLDistributionPoints), "CRL distribution points")
	vr.Assert(len(c.PolicyIdentifiers) == len(tmpl.PolicyIdentifiers), "policy count")
	for i := range tmpl.PolicyIdentifiers {
		vr.Assert(c.PolicyIdentifiers[i].Equal(tmpl.PolicyIdentifiers[i]), "policy identifiers")
	}
	vr.Cover("done")
}

// verif: covers=done
func VerifH_C04_name_constraints() {
	c04Stubs()
	tmpl, pub := c04Template()
	tmpl.BasicConstraintsValid, tmpl.IsCA = true, true
	tmpl.NameConstraintsCritical = vr.Bool("critical")
	if vr.Bool("permDNS") {
		tmpl.PermittedDNSNames = []GeneralSubtreeString{{Data: c04ASCII("permDNS", 2)}}
	}
	if vr.Bool("exclDNS") {
		tmpl.ExcludedDNSNames = []GeneralSubtreeString{{Data: c04ASCII("exclDNS", 2)}}
	}
	if vr.Bool("permEmail") {
		tmpl.PermittedEmailAddresses = []GeneralSubtreeString{{Data: c04ASCII("permEmail", 2)}}
	}
	ipKind := vr.Pick(vr.Int("ipRange", 0, 2))
	var rng net.IPNet
	switch ipKind {
	case 1:
		rng = net.IPNet{IP: net.IP(vr.Bytes("net4", 4)), Mask: net.IPMask(vr.Bytes("mask4", 4))}
	case 2:
		rng = net.IPNet{IP: net.IP(append(vr.Bytes("net6", 2), make([]byte, 14)...)), Mask: net.IPMask(append(vr.Bytes("mask6", 2), make([]byte, 14)...))}
	}
	excluded := vr.Bool("ipExcluded")
	if ipKind != 0 {
		if excluded {
			tmpl.ExcludedIPAddresses = []GeneralSubtreeIP{{Data: rng}}
		} else {
			tmpl.PermittedIPAddresses = []GeneralSubtreeIP{{Data: rng}}
		}
	}
	vr.Assume(len(tmpl.PermittedDNSNames)+len(tmpl.ExcludedDNSNames)+len(tmpl.PermittedEmailAddresses)+ipKind > 0)
	c := c04Issue(tmpl, nil, pub)
	same := func(a, b []GeneralSubtreeString) bool {
		if len(a) != len(b) {
			return false
		}
		for i := range a {
			if a[i].Data != b[i].Data {
				return false
			}
		}
		return true
	}
	vr.Assert(same(c.PermittedDNSNames, tmpl.PermittedDNSNames) && same(c.ExcludedDNSNames, tmpl.ExcludedDNSNames) && same(c.PermittedEmailAddresses, tmpl.PermittedEmailAddresses), "string name constraints")
	sameIP := func(a, b []GeneralSubtreeIP) bool {
		if len(a) != len(b) {
			return false
		}
		for i := range a {
			if !a[i].Data.IP.Equal(b[i].Data.IP) || !bytes.Equal(a[i].Data.Mask, b[i].Data.Mask) {
				return false
			}
		}
		return true
	}
	vr.Assert(sameIP(c.PermittedIPAddresses, tmpl.PermittedIPAddresses) && sameIP(c.ExcludedIPAddresses, tmpl.ExcludedIPAddresses), "IP range name constraints")
	vr.Assert(c.NameConstraintsCritical == tmpl.NameConstraintsCritical, "criticality of the name constraints")
	vr.Cover("done")
}

// verif: covers=done
func VerifH_C04_extra_extensions_and_signature() {
	c04Stubs()
	tmpl, pub := c04Template()
	tmpl.KeyUsage = KeyUsageDigitalSignature
	tmpl.SubjectKeyId = []byte{1, 2}
	// an extra extension: either an unrelated one or one that overrides the generated key usage
	override := vr.Bool("overridesKeyUsage")
	val := vr.Bytes("extValue", 1)
	ext := pkix.Extension{Id: asn1.ObjectIdentifier{1, 2, 3, []int{5, 200}[vr.Pick(vr.Int("extArc", 0, 1))]}, Critical: vr.Bool("extCritical"), Value: []byte{4, 1, val[0]}}
	if override {
		ext = pkix.Extension{Id: oidExtensionKeyUsage, Critical: true, Value: []byte{3, 2, 0, vr.U8("kuBits") & 0x80}}
	}
	tmpl.ExtraExtensions = []pkix.Extension{ext}
	issued := vr.Bool("issuedByOther")
	var parent *Certificate
	parentKey := pub
	if issued {
		parentKey = ed25519.PublicKey(make([]byte, 32))
		parentKey[0] = 9
		parent = &Certificate{Subject: pkix.Name{CommonName: "ca"}, PublicKey: parentKey, PublicKeyAlgorithm: Ed25519, BasicConstraintsValid: true, IsCA: true, Version: 3, SubjectKeyId: []byte{9}}
		parent.RawSubject, _ = asn1.Marshal(parent.Subject.ToRDNSequence()) // as a parsed parent carries it
	}
	p := parent
	if p == nil {
		p = tmpl
	}
	der, err := CreateCertificate(nil, tmpl, p, pub, c03Signer{pub: parentKey, cap: &c03Capture{}})
	vr.Assert(err == nil, "issued")
	// the ideal signature: exactly what the signer returned verifies under the signer's key
	vr.Assume(vr.UFBool("ed25519", parentKey, c04TBS(der), []byte{0xaa}))
	c, err := ParseCertificate(der)
	vr.Assert(err == nil, "parses")
	found := 0
	for _, e := range c.Extensions {
		if e.Id.Equal(ext.Id) {
			found++
			vr.Assert(e.Critical == ext.Critical && bytes.Equal(e.Value, ext.Value), "an extra extension is carried verbatim")
		}
	}
	vr.Assert(found == 1, "exactly once, replacing the generated extension of the same type")
	if override {
		vr.Assert(c.KeyUsage == KeyUsage(0)|KeyUsage((ext.Value[3]>>7)&1), "the overriding key usage wins")
	}
	if issued {
		vr.Assert(c.Issuer.CommonName == "ca" && c.CheckSignatureFrom(parent) == nil, "the signature verifies against the parent certificate")
	} else {
		vr.Assert(c.CheckSignatureFrom(c) == nil || !c.BasicConstraintsValid, "a self-signed certificate verifies against itself")
	}
	vr.Cover("done")
}

// C04: an extra extension overrides exactly the generated extension of its own type —
// the other generated extensions (here the two key identifiers and the key usage) are
// still emitted once each and parse back to the template's values.
// verif: covers=done
func VerifH_C04_extra_extension_overrides_only_its_own_type() {
	c04Stubs()
	tmpl, pub := c04Template()
	tmpl.KeyUsage = KeyUsageDigitalSignature
	tmpl.SubjectKeyId = []byte{1, 2}
	tmpl.AuthorityKeyId = []byte{3, 4}
	b := vr.U8("overrideByte")
	var ext pkix.Extension
	kind := vr.Pick(vr.Int("overrides", 0, 2))
	switch kind {
	case 0: // subject key id: OCTET STRING
		ext = pkix.Extension{Id: oidExtensionSubjectKeyId, Value: []byte{4, 1, b}}
	case 1: // authority key id: SEQUENCE { [0] keyid }
		ext = pkix.Extension{Id: oidExtensionAuthorityKeyId, Value: []byte{0x30, 3, 0x80, 1, b}}
	case 2: // key usage
		ext = pkix.Extension{Id: oidExtensionKeyUsage, Critical: true, Value: []byte{3, 2, 0, b & 0x80}}
	}
	tmpl.ExtraExtensions = []pkix.Extension{ext}
	c := c04Issue(tmpl, nil, pub)
	count := func(id asn1.ObjectIdentifier) int {
		n := 0
		for _, e := range c.Extensions {
			if e.Id.Equal(id) {
				n++
			}
		}
		return n
	}
	vr.Assert(count(oidExtensionSubjectKeyId) == 1 && count(oidExtensionAuthorityKeyId) == 1 && count(oidExtensionKeyUsage) == 1, "each extension type appears exactly once")
	if kind == 0 {
		vr.Assert(bytes.Equal(c.SubjectKeyId, []byte{b}), "the overriding subject key id wins")
	} else {
		vr.Assert(bytes.Equal(c.SubjectKeyId, tmpl.SubjectKeyId), "the template's subject key id is kept")
	}
	if kind == 1 {
		vr.Assert(bytes.Equal(c.AuthorityKeyId, []byte{b}), "the overriding authority key id wins")
	} else {
		vr.Assert(bytes.Equal(c.AuthorityKeyId, tmpl.AuthorityKeyId), "the template's authority key id is kept")
	}
	if kind != 2 {
		vr.Assert(c.KeyUsage == tmpl.KeyUsage, "the template's key usage is kept")
	}
	vr.Cover("done")
}

// c04TBS extracts the to-be-signed bytes (first element of the outer SEQUENCE).
func c04TBS(der []byte) []byte {
	var c certificate
	if _, err := asn1.Unmarshal(der, &c); err != nil {
		return nil
	}
	return c.TBSCertificate.Raw
}
