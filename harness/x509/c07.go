//go:build verif

package x509

import (
	"bytes"
	"errors"
	"time"

	vr "github.com/zmap/zcrypto/internal/verifrt"
)

// symbolic PKI shared by C07/C08
func pkiSigStub() {
	vr.Stub("(*github.com/zmap/zcrypto/x509.Certificate).CheckSignature", func(parent *Certificate, algo SignatureAlgorithm, signed, sig []byte) error {
		if vr.UFBool("sig", parent.Raw, signed) {
			return nil
		}
		return errors.New("model: signature does not verify")
	})
}

func pkiSig(parent, child *Certificate) bool {
	return vr.UFBool("sig", parent.Raw, child.RawTBSCertificate)
}

// validity bounds as plain integers (the oracle compares these branch-free instead
// of going through time.Time, whose comparisons fork)
var pkiNB, pkiNA [8]int

// pkiSymbolicTimes: validity bounds and the verification time are symbolic (the
// date-partition harness) or fixed to "currently valid" (the structure harnesses).
// The two dimensions are explored separately: their product does not fit the budget.
var pkiSymbolicTimes bool

// pkiPlainAttrs: version, key usage and extended key usage are left at their
// permissive defaults (harnesses that focus on another dimension).
var pkiPlainAttrs bool

func pkiCert(id byte, withKeyIds bool) *Certificate {
	c := &Certificate{Raw: []byte{id}, RawTBSCertificate: []byte{0xB0 | id}, FingerprintSHA256: []byte{id},
		RawSubject: vr.Bytes("subject", 1), RawIssuer: vr.Bytes("issuer", 1), RawSubjectPublicKeyInfo: vr.Bytes("spki", 1),
		PublicKeyAlgorithm: RSA}
	if withKeyIds {
		if vr.Bool("hasSKI") {
			c.SubjectKeyId = vr.Bytes("ski", 1)
		}
		if vr.Bool("hasAKI") {
			c.AuthorityKeyId = vr.Bytes("aki", 1)
		}
	}
	c.BasicConstraintsValid = vr.Bool("bcValid")
	c.IsCA = vr.Bool("isCA")
	c.MaxPathLen = vr.Int("maxPathLen", -1, 1)
	c.Version = 3
	if !pkiPlainAttrs {
		c.Version = vr.IteInt(vr.Bool("v1"), 1, 3)
		c.KeyUsage = KeyUsage(vr.IteInt(vr.Bool("kuCertSign"), int(KeyUsageCertSign), vr.IteInt(vr.Bool("kuOther"), int(KeyUsageDigitalSignature), 0)))
	}
	if !pkiPlainAttrs && vr.Bool("hasEKU") {
		// one arbitrary usage out of {Any, ServerAuth, ClientAuth}
		u := vr.IteInt(vr.Bool("ekuAny"), int(ExtKeyUsageAny), vr.IteInt(vr.Bool("ekuServer"), int(ExtKeyUsageServerAuth), int(ExtKeyUsageClientAuth)))
		c.ExtKeyUsage = []ExtKeyUsage{ExtKeyUsage(u)}
	}
	pkiNB[id], pkiNA[id] = 10, 200
	if pkiSymbolicTimes {
		pkiNB[id], pkiNA[id] = int(vr.U8("notBefore")), int(vr.U8("notAfter"))
	}
	c.NotBefore = time.Unix(int64(pkiNB[id]), 0)
	c.NotAfter = time.Unix(int64(pkiNA[id]), 0)
	c.SelfSigned = vr.Bool("selfSigned")
	return c
}

func c07Permits(c *Certificate, u ExtKeyUsage) bool {
	if len(c.ExtKeyUsage) == 0 && len(c.UnknownExtKeyUsage) == 0 {
		return true
	}
	for _, e := range c.ExtKeyUsage {
		if e == ExtKeyUsageAny || e == u {
			return true
		}
		if u == ExtKeyUsageServerAuth && (e == ExtKeyUsageNetscapeServerGatedCrypto || e == ExtKeyUsageMicrosoftServerGatedCrypto) {
			return true
		}
	}
	return false
}

// C07: every chain Verify returns is a valid chain, and current/expired/never
// partition the returned chains by their validity window.
// (Two further certificates with full attributes, key identifiers or symbolic dates
// exceed 600000 paths; the thorough tier keeps one further certificate here and
// relies on the plain-attribute depth-2 harness below for longer chains.)
// verif: covers=some-chain,no-chain maxpaths=600000
func VerifH_C07_verify_chains_sound() {
	c07VerifySound(1, false)
}

// The same with subject/authority key identifiers steering the parent lookup.
// verif: covers=some-chain,no-chain maxpaths=600000
func VerifH_C07_verify_chains_sound_keyids() {
	pkiPlainAttrs = true
	c07VerifySound(1, true)
}

// Two further certificates (leaf -> intermediate -> root shapes) with plain attributes.
// verif: covers=some-chain,no-chain maxpaths=600000
func VerifH_C07_verify_chains_sound_depth2() {
	pkiPlainAttrs = true
	c07VerifySound(2, false)
}

// Date partition through Verify: arbitrary validity bounds and verification time.
// verif: covers=some-chain,no-chain maxpaths=600000
func VerifH_C07_verify_chains_dates() {
	pkiSymbolicTimes = true
	pkiPlainAttrs = true
	c07VerifySound(1, false)
}

func c07VerifySound(k int, withKeyIds bool) {
	pkiSigStub()
	leaf := pkiCert(0, withKeyIds)
	roots, inter := NewCertPool(), NewCertPool()
	var all []*Certificate
	all = append(all, leaf)
	if vr.Bool("leafIsRoot") {
		roots.AddCert(leaf)
	}
	for i := 1; i <= k; i++ {
		c := pkiCert(byte(i), withKeyIds)
		all = append(all, c)
		if vr.Bool("inRoots") {
			roots.AddCert(c)
		}
		if vr.Bool("inIntermediates") {
			inter.AddCert(c)
		}
	}
	nowS := 100
	if pkiSymbolicTimes {
		nowS = int(vr.U8("now"))
	}
	now := time.Unix(int64(nowS), 0)
	opts := VerifyOptions{Roots: roots, Intermediates: inter, CurrentTime: now}
	var usage ExtKeyUsage = ExtKeyUsageServerAuth
	if vr.Bool("explicitUsage") {
		usage = ExtKeyUsage(vr.IteInt(vr.Bool("usageClient"), int(ExtKeyUsageClientAuth), int(ExtKeyUsageAny)))
		opts.KeyUsages = []ExtKeyUsage{usage}
	}
	current, expired, never, err := leaf.Verify(opts)

	check := func(ch CertificateChain, class int) {
		vr.Assert(len(ch) >= 1 && ch[0] == leaf, "chain starts at the verified certificate")
		last := ch[len(ch)-1]
		vr.Assert(roots.Contains(last), "chain ends at a certificate in the supplied roots")
		for i := 0; i+1 < len(ch); i++ {
			c, p := ch[i], ch[i+1]
			vr.Assert(bytes.Equal(c.RawIssuer, p.RawSubject), "consecutive certificates are linked by issuer name")
			vr.Assert(pkiSig(p, c), "consecutive certificates are linked by a valid signature")
		}
		for i := 1; i+1 < len(ch); i++ {
			vr.Assert(ch[i].BasicConstraintsValid && ch[i].IsCA, "intermediates are CA certificates")
		}
		for i := 1; i < len(ch); i++ {
			if ch[i].BasicConstraintsValid && ch[i].MaxPathLen >= 0 {
				vr.Assert(i-1 <= ch[i].MaxPathLen, "path-length limits are respected")
			}
		}
		for i := range ch {
			for j := i + 1; j < len(ch); j++ {
				vr.Assert(!bytes.Equal(ch[i].FingerprintSHA256, ch[j].FingerprintSHA256), "no certificate repeats in a chain")
			}
		}
		if usage != ExtKeyUsageAny {
			ok := true
			for _, c := range ch {
				ok = ok && c07Permits(c, usage)
			}
			vr.Assert(ok, "the requested extended key usage is permitted by every certificate")
		}
		// validity window: [max NotBefore, min NotAfter]
		lo, hi := pkiNB[ch[0].Raw[0]], pkiNA[ch[0].Raw[0]]
		for _, c := range ch[1:] {
			nb, na := pkiNB[c.Raw[0]], pkiNA[c.Raw[0]]
			lo = vr.IteInt(nb > lo, nb, lo)
			hi = vr.IteInt(na < hi, na, hi)
		}
		// instants equal to a window edge are excluded: the statement does not fix strictness
		vr.Assume(vr.And(nowS != lo, vr.And(nowS != hi, lo != hi)))
		want := vr.IteInt(lo < hi, vr.IteInt(vr.And(lo < nowS, nowS < hi), 0, 1), 2)
		vr.Assert(class == want, "chains are partitioned by their validity window at the verification time")
	}
	n := 0
	for _, ch := range current {
		check(ch, 0)
		n++
	}
	for _, ch := range expired {
		check(ch, 1)
		n++
	}
	for _, ch := range never {
		check(ch, 2)
		n++
	}
	if err == nil {
		vr.Assert(len(current) > 0, "success implies a currently valid chain")
	}
	if n > 0 {
		vr.Cover("some-chain")
	} else {
		vr.Cover("no-chain")
	}
}

// C07: FilterByDate alone, with arbitrary instants.
// verif: covers=done
func VerifH_C07_filter_by_date() {
	n := vr.Int("len", 1, 3)
	var ch CertificateChain
	for i := 0; i < n; i++ {
		ch = append(ch, &Certificate{NotBefore: time.Unix(int64(vr.U32("nb")), 0), NotAfter: time.Unix(int64(vr.U32("na")), 0)})
	}
	now := time.Unix(int64(vr.U32("now")), 0)
	cur, exp, nev := FilterByDate([]CertificateChain{ch, nil}, now)
	vr.Assert(len(cur)+len(exp)+len(nev) == 1, "each non-empty chain lands in exactly one class; empty chains are dropped")
	lo, hi := ch[0].NotBefore.Unix(), ch[0].NotAfter.Unix()
	for _, c := range ch[1:] {
		if c.NotBefore.Unix() > lo {
			lo = c.NotBefore.Unix()
		}
		if c.NotAfter.Unix() < hi {
			hi = c.NotAfter.Unix()
		}
	}
	t := now.Unix()
	vr.Assume(t != lo && t != hi && lo != hi)
	switch {
	case lo < t && t < hi:
		vr.Assert(len(cur) == 1, "current")
	case lo < hi:
		vr.Assert(len(exp) == 1, "expired")
	default:
		vr.Assert(len(nev) == 1, "never valid")
	}
	vr.Cover("done")
}

// C07: checkChainForKeyUsage = some requested usage is permitted by every certificate.
// verif: covers=ok,refused
func VerifH_C07_chain_key_usage() {
	pool := []ExtKeyUsage{ExtKeyUsageAny, ExtKeyUsageServerAuth, ExtKeyUsageClientAuth, ExtKeyUsageNetscapeServerGatedCrypto, ExtKeyUsageEmailProtection}
	n := vr.Int("len", 0, 2+vr.Tier())
	var ch []*Certificate
	for i := 0; i < n; i++ {
		c := &Certificate{}
		m := vr.Int("nEKU", 0, 2)
		for j := 0; j < m; j++ {
			c.ExtKeyUsage = append(c.ExtKeyUsage, pool[vr.Int("eku", 0, len(pool)-1)])
		}
		ch = append(ch, c)
	}
	var req []ExtKeyUsage
	r := vr.Int("nReq", 1, 2)
	for j := 0; j < r; j++ {
		req = append(req, pool[vr.Int("req", 1, len(pool)-1)])
	}
	reqBefore := append([]ExtKeyUsage{}, req...)
	got := checkChainForKeyUsage(ch, req)
	// Verify hands the same usage list to every candidate chain in turn, so the check
	// must leave it as it found it (otherwise a later chain is judged against a
	// different request than the caller made)
	same := len(req) == len(reqBefore)
	for i := range reqBefore {
		same = same && req[i] == reqBefore[i]
	}
	vr.Assert(same, "the requested-usage list is not altered by checking a chain")
	want := false
	for _, u := range req {
		all := n > 0
		for _, c := range ch {
			all = all && c07Permits(c, u)
		}
		want = want || all
	}
	vr.Assert(got == want, "accepted iff some requested usage is permitted by every certificate of a non-empty chain")
	if got {
		vr.Cover("ok")
	} else {
		vr.Cover("refused")
	}
}
