//go:build verif

package pkix

import (
	vr "github.com/zmap/zcrypto/internal/verifrt"
)

func c22Strings(label string) []string {
	n := vr.Int(label+"#", 0, 2)
	var out []string
	for i := 0; i < n; i++ {
		out = append(out, vr.String(label, vr.Int(label+"-len", 0, 2)))
	}
	return out
}

func c22Eq(a, b []string) bool {
	if len(a) != len(b) {
		return false
	}
	for i := range a {
		if a[i] != b[i] {
			return false
		}
	}
	return true
}

// c22RoundTrip: Name -> RDNSequence -> Name keeps every emitted field (the DER
// layer in between is decided under C18/C19: here the sequence value is passed on).
func c22RoundTrip(n *Name) {
	rdns := n.ToRDNSequence()
	var m Name
	m.FillFromRDNSequence(&rdns)
	vr.Assert(m.CommonName == n.CommonName && m.SerialNumber == n.SerialNumber, "single-valued fields")
	vr.Assert(c22Eq(m.EmailAddress, n.EmailAddress) && c22Eq(m.OrganizationalUnit, n.OrganizationalUnit) && c22Eq(m.Organization, n.Organization) &&
		c22Eq(m.StreetAddress, n.StreetAddress) && c22Eq(m.Locality, n.Locality) && c22Eq(m.Province, n.Province) && c22Eq(m.PostalCode, n.PostalCode) &&
		c22Eq(m.Country, n.Country) && c22Eq(m.DomainComponent, n.DomainComponent) && c22Eq(m.JurisdictionLocality, n.JurisdictionLocality) &&
		c22Eq(m.JurisdictionProvince, n.JurisdictionProvince) && c22Eq(m.JurisdictionCountry, n.JurisdictionCountry) && c22Eq(m.OrganizationIDs, n.OrganizationIDs),
		"multi-valued fields keep every value in order")
	if len(n.CommonName) > 0 {
		vr.Assert(c22Eq(m.CommonNames, []string{n.CommonName}), "common name list")
	}
	// a filled Name converts back to the same sequence
	back := m.ToRDNSequence()
	vr.Assert(len(back) == len(rdns), "filled name converts back to a sequence of the same length")
	for i := range rdns {
		vr.Assert(len(back[i]) == len(rdns[i]), "same RDN sizes")
		for j := range rdns[i] {
			vr.Assert(back[i][j].Type.Equal(rdns[i][j].Type) && back[i][j].Value.(string) == rdns[i][j].Value.(string), "same attribute types and values")
		}
	}
	total := 0
	for _, r := range rdns {
		total += len(r)
	}
	vr.Assert(len(m.Names) == total, "Names lists every attribute")
	vr.Cover("done")
}

// verif: covers=done
func VerifH_C22_name_roundtrip_g1() {
	n := &Name{CommonName: vr.String("cn", vr.Int("cn-len", 0, 2)), SerialNumber: vr.String("serial", vr.Int("serial-len", 0, 2)),
		Country: c22Strings("country"), Organization: c22Strings("org")}
	c22RoundTrip(n)
}

// verif: covers=done
func VerifH_C22_name_roundtrip_g2() {
	n := &Name{OrganizationalUnit: c22Strings("ou"), Locality: c22Strings("locality"), Province: c22Strings("province"), EmailAddress: c22Strings("email")}
	c22RoundTrip(n)
}

// verif: covers=done
func VerifH_C22_name_roundtrip_g3() {
	n := &Name{StreetAddress: c22Strings("street"), PostalCode: c22Strings("postal"), DomainComponent: c22Strings("dc"), OrganizationIDs: c22Strings("orgid")}
	c22RoundTrip(n)
}

// verif: covers=done
func VerifH_C22_name_roundtrip_g4() {
	n := &Name{JurisdictionLocality: c22Strings("jl"), JurisdictionProvince: c22Strings("jp"), JurisdictionCountry: c22Strings("jc"),
		CommonName: vr.String("cn", vr.Int("cn-len", 0, 1)), Country: c22Strings("country")}
	c22RoundTrip(n)
}
