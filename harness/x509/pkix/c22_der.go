//go:build verif

package pkix

import (
	"unicode/utf8"

	"github.com/zmap/zcrypto/encoding/asn1"
	vr "github.com/zmap/zcrypto/internal/verifrt"
)

// C22 through DER: Name -> RDNSequence -> asn1.Marshal -> strict asn1.Unmarshal ->
// RDNSequence -> Name, with arbitrary valid UTF-8 attribute values (the marshaller
// chooses PrintableString or UTF8String per value).
// verif: covers=done
func VerifH_C22_name_der_roundtrip() {
	s := func(label string) string {
		v := vr.String(label, vr.Int(label+"-len", 0, 2))
		vr.Assume(utf8.ValidString(v))
		return v
	}
	var n Name
	switch vr.Pick(vr.Int("shape", 0, 3)) {
	case 0:
		n.CommonName = s("cn")
		n.Country = []string{"US"}
	case 1:
		// two values of one field share an RDN, which DER encodes as a sorted SET
		n.Organization = []string{s("o1"), "Org*"}
	case 2:
		n.SerialNumber = s("serial")
		n.Locality = []string{"Zürich"}
	case 3:
		n.OrganizationalUnit = []string{"unit"}
		n.DomainComponent = []string{s("dc")}
	}
	rdns := n.ToRDNSequence()
	der, err := asn1.Marshal(rdns)
	vr.Assert(err == nil, "a name built from valid strings marshals")
	var back RDNSequence
	rest, err := asn1.Unmarshal(der, &back)
	vr.Assert(err == nil && len(rest) == 0, "strict Unmarshal consumes the marshalled name")
	var m Name
	m.FillFromRDNSequence(&back)
	vr.Assert(m.CommonName == n.CommonName && m.SerialNumber == n.SerialNumber && c22Eq(m.Country, n.Country) && c22SameSet(m.Organization, n.Organization) &&
		c22Eq(m.OrganizationalUnit, n.OrganizationalUnit) && c22Eq(m.Locality, n.Locality) && c22Eq(m.DomainComponent, n.DomainComponent), "every field round-trips through DER")
	vr.Cover("done")
}

// c22SameSet: equal as multisets (at most two values here).
func c22SameSet(a, b []string) bool {
	if len(a) != len(b) {
		return false
	}
	if len(a) == 2 {
		return (a[0] == b[0] && a[1] == b[1]) || (a[0] == b[1] && a[1] == b[0])
	}
	return c22Eq(a, b)
}
