//go:build verif

package x509

import (
	"bytes"
	"crypto/ed25519"
	"math/big"
	"net"
	"time"

	"github.com/zmap/zcrypto/encoding/asn1"
	vr "github.com/zmap/zcrypto/internal/verifrt"
	"github.com/zmap/zcrypto/x509/pkix"
)

// C05: certificate requests, legacy CRLs and v2 revocation lists created by the
// library parse back to what was supplied and verify with the matching API. As in
// C04 the real creation code, DER codec (reflection-driven and, for
// ParseRevocationList, cryptobyte) and parsers run; the signature primitive is an
// ideal Ed25519 (signer returns a token; Verify is an uninterpreted relation that is
// assumed to hold for exactly that token over the to-be-signed bytes).

func c05Key(b byte) ed25519.PublicKey {
	k := ed25519.PublicKey(make([]byte, 32))
	k[0] = b
	return k
}

func c05Issuer(key ed25519.PublicKey) *Certificate {
	iss := &Certificate{Subject: pkix.Name{CommonName: "ca"}, PublicKey: key, PublicKeyAlgorithm: Ed25519, BasicConstraintsValid: true, IsCA: true,
		Version: 3, SubjectKeyId: []byte{9, 9}, KeyUsage: KeyUsageCRLSign | KeyUsageCertSign}
	iss.RawSubject, _ = asn1.Marshal(iss.Subject.ToRDNSequence())
	return iss
}

// verif: covers=done
func VerifH_C05_certificate_request() {
	c04Stubs()
	key := c05Key(3)
	tmpl := &CertificateRequest{Subject: pkix.Name{CommonName: "req", Organization: []string{"org"}}}
	if vr.Bool("symbolicCN") {
		tmpl.Subject.CommonName = c04ASCII("cn", 1)
	}
	if vr.Bool("hasDNS") {
		tmpl.DNSNames = []string{c04ASCII("dns", 1), "x.example"}
	}
	if vr.Bool("hasEmail") {
		tmpl.EmailAddresses = []string{"a@b"}
	}
	if vr.Bool("hasIP") {
		tmpl.IPAddresses = []net.IP{net.IP(vr.Bytes("ip", 4))}
	}
	hasExtra := vr.Bool("hasExtra")
	extra := pkix.Extension{Id: asn1.ObjectIdentifier{1, 2, 3, []int{5, 200}[vr.Pick(vr.Int("arc", 0, 1))]}, Value: []byte{4, 1, vr.U8("extByte")}}
	if hasExtra {
		tmpl.ExtraExtensions = []pkix.Extension{extra}
	}
	der, err := CreateCertificateRequest(nil, tmpl, c03Signer{pub: key, cap: &c03Capture{}})
	vr.Assert(err == nil, "the request is created")
	csr, err := ParseCertificateRequest(der)
	vr.Assert(err == nil, "and parses")
	vr.Assert(csr.Subject.CommonName == tmpl.Subject.CommonName && c02Same(csr.Subject.Organization, tmpl.Subject.Organization), "subject")
	vr.Assert(c02Same(csr.DNSNames, tmpl.DNSNames) && c02Same(csr.EmailAddresses, tmpl.EmailAddresses), "DNS and email SANs")
	vr.Assert(len(csr.IPAddresses) == len(tmpl.IPAddresses), "IP SAN count")
	for i := range tmpl.IPAddresses {
		vr.Assert(csr.IPAddresses[i].Equal(tmpl.IPAddresses[i]), "IP SANs")
	}
	if hasExtra {
		found := false
		for _, e := range csr.Extensions {
			found = found || (e.Id.Equal(extra.Id) && bytes.Equal(e.Value, extra.Value))
		}
		vr.Assert(found, "extra extensions are requested verbatim")
	}
	pk, ok := csr.PublicKey.(ed25519.PublicKey)
	vr.Assert(ok && bytes.Equal(pk, key), "public key")
	vr.Assume(vr.UFBool("ed25519", key, csr.RawTBSCertificateRequest, []byte{0xaa}))
	vr.Assert(csr.CheckSignature() == nil, "the request verifies under its own key")
	vr.Cover("done")
}

// verif: covers=done
func VerifH_C05_revocation_list() {
	c04Stubs()
	key := c05Key(4)
	issuer := c05Issuer(key)
	n := vr.Int("entries", 0, 2)
	tmpl := &RevocationList{Number: big.NewInt([]int64{0, 127, 128, 70000}[vr.Pick(vr.Int("number", 0, 3))]), ThisUpdate: time.Unix(1600000000, 0), NextUpdate: time.Unix(1600086400, 0)}
	type want struct {
		serial int64
		reason int
		hasR   bool
		extras bool
	}
	var wants []want
	for i := 0; i < n; i++ {
		w := want{serial: []int64{1, 128, 65536}[vr.Pick(vr.Int("serial", 0, 2))]}
		rc := RevokedCertificate{SerialNumber: big.NewInt(w.serial), RevocationTime: time.Unix(1599000000+int64(i), 0)}
		switch vr.Pick(vr.Int("reasonKind", 0, 3)) {
		case 1: // explicit zero: omitted
			z := 0
			rc.ReasonCode = &z
		case 2:
			r := vr.Int("reason", 1, 10)
			rc.ReasonCode = &r
			w.reason, w.hasR = r, true
		case 3: // a user-supplied reason extension is replaced by the synthesised one
			r := vr.Int("reason2", 1, 10)
			rc.ReasonCode = &r
			// ... and the entry's other extra extensions, before and after it, are kept
			rc.ExtraExtensions = []pkix.Extension{{Id: asn1.ObjectIdentifier{1, 2, 3, 1}, Value: []byte{5, 0}},
				{Id: oidExtensionReasonCode, Value: []byte{10, 1, 6}}, {Id: asn1.ObjectIdentifier{1, 2, 3, 2}, Value: []byte{5, 0}}}
			w.reason, w.hasR, w.extras = r, true, true
		}
		wants = append(wants, w)
		tmpl.RevokedCertificates = append(tmpl.RevokedCertificates, rc)
	}
	der, err := CreateRevocationList(nil, tmpl, issuer, c03Signer{pub: key, cap: &c03Capture{}})
	vr.Assert(err == nil, "the revocation list is created")
	rl, err := ParseRevocationList(der)
	vr.Assert(err == nil, "and parses")
	vr.Assert(rl.Number != nil && rl.Number.Cmp(tmpl.Number) == 0, "CRL number")
	vr.Assert(rl.ThisUpdate.Equal(tmpl.ThisUpdate) && rl.NextUpdate.Equal(tmpl.NextUpdate), "update times")
	// (rl.AuthorityKeyId holds the whole extension value here, not the key identifier; the
	// property does not list that field, so it is not asserted)
	vr.Assert(rl.Issuer.CommonName == "ca", "issuer")
	vr.Assert(len(rl.RevokedCertificates) == n, "entry count")
	for i, w := range wants {
		e := rl.RevokedCertificates[i]
		vr.Assert(e.SerialNumber.Cmp(big.NewInt(w.serial)) == 0 && e.RevocationTime.Equal(tmpl.RevokedCertificates[i].RevocationTime), "serial and revocation time")
		if w.hasR {
			vr.Assert(e.ReasonCode != nil && *e.ReasonCode == w.reason, "non-zero reason code")
			cnt := 0
			for _, x := range e.Extensions {
				if x.Id.Equal(oidExtensionReasonCode) {
					cnt++
				}
			}
			vr.Assert(cnt == 1, "exactly one reason-code extension")
			if w.extras {
				a, b := 0, 0
				for _, x := range e.Extensions {
					if x.Id.Equal(asn1.ObjectIdentifier{1, 2, 3, 1}) {
						a++
					}
					if x.Id.Equal(asn1.ObjectIdentifier{1, 2, 3, 2}) {
						b++
					}
				}
				vr.Assert(a == 1 && b == 1, "the other extra extensions of the entry are kept, whichever side of the reason code they were on")
			}
		} else {
			vr.Assert(e.ReasonCode == nil, "no reason code for nil or zero")
		}
	}
	vr.Assume(vr.UFBool("ed25519", key, rl.RawTBSRevocationList, []byte{0xaa}))
	vr.Assert(rl.CheckSignatureFrom(issuer) == nil, "the list verifies against the issuer")
	vr.Cover("done")
}

// verif: covers=done
func VerifH_C05_legacy_crl() {
	c04Stubs()
	key := c05Key(5)
	issuer := c05Issuer(key)
	n := vr.Int("entries", 0, 2)
	var revoked []pkix.RevokedCertificate
	for i := 0; i < n; i++ {
		revoked = append(revoked, pkix.RevokedCertificate{SerialNumber: big.NewInt(int64(vr.U8("serial"))), RevocationTime: time.Unix(1599000000+int64(i), 0).UTC()})
	}
	now, expiry := time.Unix(1600000000, 0), time.Unix(1600086400, 0)
	der, err := issuer.CreateCRL(nil, c03Signer{pub: key, cap: &c03Capture{}}, revoked, now, expiry)
	vr.Assert(err == nil, "the CRL is created")
	crl, err := ParseCRL(der)
	vr.Assert(err == nil, "and parses")
	vr.Assert(crl.TBSCertList.ThisUpdate.Equal(now) && crl.TBSCertList.NextUpdate.Equal(expiry), "update times")
	vr.Assert(len(crl.TBSCertList.RevokedCertificates) == n, "entry count")
	for i := range revoked {
		e := crl.TBSCertList.RevokedCertificates[i]
		vr.Assert(e.SerialNumber.Cmp(revoked[i].SerialNumber) == 0 && e.RevocationTime.Equal(revoked[i].RevocationTime), "serial and revocation time")
	}
	var iss pkix.Name
	iss.FillFromRDNSequence(&crl.TBSCertList.Issuer)
	vr.Assert(iss.CommonName == "ca", "issuer")
	vr.Assume(vr.UFBool("ed25519", key, crl.TBSCertList.Raw, []byte{0xaa}))
	vr.Assert(issuer.CheckCRLSignature(crl) == nil, "the CRL verifies against the issuer")
	vr.Cover("done")
}
