//go:build verif

package cryptobyte

import (
	"math/big"

	"github.com/zmap/zcrypto/cryptobyte/asn1"
	vr "github.com/zmap/zcrypto/internal/verifrt"
)

// C21 for the reflection-driven integer readers: what AddASN1Int64 / AddASN1Uint64 /
// AddASN1BigInt write, ReadASN1Integer reads back into every integer width (or
// refuses exactly when the value does not fit), and ReadOptionalASN1Integer returns
// the default exactly when the tagged element is absent.
// verif: covers=fits,overflows
func VerifH_C21_integer_builder_reader() {
	v := int64(vr.U64("v"))
	width := vr.Pick(vr.Int("width", 0, 3))
	var b Builder
	b.AddASN1Int64(v)
	enc, err := b.Bytes()
	vr.Assert(err == nil, "builds")
	s := String(enc)
	ok, fits := false, false
	var got int64
	switch width {
	case 0:
		var o int8
		ok, got, fits = s.ReadASN1Integer(&o), int64(o), v == int64(int8(v))
	case 1:
		var o int16
		ok, got, fits = s.ReadASN1Integer(&o), int64(o), v == int64(int16(v))
	case 2:
		var o int32
		ok, got, fits = s.ReadASN1Integer(&o), int64(o), v == int64(int32(v))
	case 3:
		var o int64
		ok, got, fits = s.ReadASN1Integer(&o), o, true
	}
	vr.Assert(ok == fits, "the reader accepts exactly the values that fit the target width")
	if ok {
		vr.Assert(got == v && s.Empty(), "and returns the written value, consuming the element")
		vr.Cover("fits")
	} else {
		vr.Cover("overflows")
	}
}

// verif: covers=fits,overflows
func VerifH_C21_unsigned_builder_reader() {
	v := vr.U64("v")
	var b Builder
	b.AddASN1Uint64(v)
	enc, err := b.Bytes()
	vr.Assert(err == nil, "builds")
	s := String(enc)
	ok, fits := false, false
	var got uint64
	switch vr.Pick(vr.Int("width", 0, 3)) {
	case 0:
		var o uint8
		ok, got, fits = s.ReadASN1Integer(&o), uint64(o), v == uint64(uint8(v))
	case 1:
		var o uint16
		ok, got, fits = s.ReadASN1Integer(&o), uint64(o), v == uint64(uint16(v))
	case 2:
		var o uint32
		ok, got, fits = s.ReadASN1Integer(&o), uint64(o), v == uint64(uint32(v))
	case 3:
		var o uint64
		ok, got, fits = s.ReadASN1Integer(&o), o, true
	}
	vr.Assert(ok == fits, "the reader accepts exactly the values that fit the target width")
	if ok {
		vr.Assert(got == v && s.Empty(), "and returns the written value, consuming the element")
		vr.Cover("fits")
	} else {
		vr.Cover("overflows")
	}
}

// verif: covers=absent,present
func VerifH_C21_optional_integer() {
	tag := asn1.Tag(vr.Int("tagnum", 0, 2)).ContextSpecific().Constructed()
	v := int64(int16(vr.U16("v")))
	def := int64(int8(vr.U8("default")))
	present := vr.Bool("present")
	var b Builder
	if present {
		b.AddASN1(tag, func(c *Builder) { c.AddASN1Int64(v) })
	}
	b.AddASN1Int64(77) // something follows the optional element
	enc, err := b.Bytes()
	vr.Assert(err == nil, "builds")
	s := String(enc)
	var got int64
	ok := s.ReadOptionalASN1Integer(&got, tag, def)
	vr.Assert(ok, "reads")
	if present {
		vr.Assert(got == v, "a present element yields its value")
		vr.Cover("present")
	} else {
		vr.Assert(got == def, "an absent element yields the default")
		vr.Cover("absent")
	}
	var next int64
	vr.Assert(s.ReadASN1Integer(&next) && next == 77 && s.Empty(), "and leaves exactly what follows")
}

// verif: covers=done
func VerifH_C21_bigint_builder_reader() {
	// values from a boundary list: mixing the integer theory of the big.Int model with
	// 64-bit bit-vectors is undecided by the solver for fully symbolic values
	v := big.NewInt([]int64{0, 1, -1, 127, 128, -128, -129, 255, 256, 32767, -32768, 1 << 40, -(1 << 40)}[vr.Pick(vr.Int("v", 0, 12))])
	if vr.Bool("shifted") {
		v.Lsh(v, 64)
	}
	var b Builder
	b.AddASN1BigInt(v)
	enc, err := b.Bytes()
	vr.Assert(err == nil, "builds")
	s := String(enc)
	o := new(big.Int)
	vr.Assert(s.ReadASN1Integer(o) && o.Cmp(v) == 0 && s.Empty(), "a big integer reads back as written")
	vr.Cover("done")
}
