//go:build verif

package cryptobyte

import (
	"bytes"

	"github.com/zmap/zcrypto/cryptobyte/asn1"
	encoding_asn1 "github.com/zmap/zcrypto/encoding/asn1"
	vr "github.com/zmap/zcrypto/internal/verifrt"
)

// C19: a TLV header accepted by the strict reader re-encodes to the consumed bytes.
// verif: covers=accepted,rejected
func VerifH_C19_cb_header() {
	max := 6
	if vr.Tier() == 1 {
		max = 8
	}
	n := vr.Int("n", 0, max)
	in := vr.Bytes("in", n)
	s := String(in)
	var body String
	var tag asn1.Tag
	if !s.ReadAnyASN1(&body, &tag) {
		vr.Cover("rejected")
		return
	}
	consumed := in[:len(in)-len(s)]
	var b Builder
	b.AddASN1(tag, func(c *Builder) { c.AddBytes(body) })
	out, err := b.Bytes()
	vr.Assert(err == nil, "re-encoding succeeds")
	vr.Assert(bytes.Equal(out, consumed), "re-encoding reproduces consumed bytes")
	vr.ObserveBytes("out", out)
	vr.Cover("accepted")
}

// C19: an OBJECT IDENTIFIER accepted by the reader re-encodes to the consumed bytes.
// verif: covers=accepted,rejected
func VerifH_C19_cb_oid() {
	max := 5
	if vr.Tier() == 1 {
		max = 7
	}
	n := vr.Int("n", 0, max)
	body := vr.Bytes("body", n)
	in := append([]byte{byte(asn1.OBJECT_IDENTIFIER), byte(n)}, body...)
	s := String(in)
	var oid encoding_asn1.ObjectIdentifier
	if !s.ReadASN1ObjectIdentifier(&oid) {
		vr.Cover("rejected")
		return
	}
	vr.Assert(len(s) == 0, "whole element consumed")
	var b Builder
	b.AddASN1ObjectIdentifier(oid)
	out, err := b.Bytes()
	vr.KnownFinding("C19-oid-leading-0x80", hasLeading80(body))
	vr.Assert(err == nil, "re-encoding succeeds")
	vr.Assert(bytes.Equal(out, in), "re-encoding reproduces consumed bytes")
	vr.Cover("accepted")
}

// hasLeading80 reports whether some base-128 sub-identifier starts with 0x80.
func hasLeading80(body []byte) bool {
	start := true
	for _, c := range body {
		if start && c == 0x80 {
			return true
		}
		start = c&0x80 == 0
	}
	return false
}
