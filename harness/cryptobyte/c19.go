//go:build verif

package cryptobyte

import (
	"bytes"

	"github.com/zmap/zcrypto/cryptobyte/asn1"
	encoding_asn1 "github.com/zmap/zcrypto/encoding/asn1"
	vr "github.com/zmap/zcrypto/internal/verifrt"
)

// C19: a TLV header accepted by the strict reader re-encodes to the consumed bytes.
// verif: covers=accepted,rejected
func VerifH_C19_cb_header() {
	max := 6
	if vr.Tier() == 1 {
		max = 8
	}
	n := vr.Int("n", 0, max)
	in := vr.Bytes("in", n)
	s := String(in)
	var body String
	var tag asn1.Tag
	if !s.ReadAnyASN1(&body, &tag) {
		vr.Cover("rejected")
		return
	}
	consumed := in[:len(in)-len(s)]
	var b Builder
	b.AddASN1(tag, func(c *Builder) { c.AddBytes(body) })
	out, err := b.Bytes()
	vr.Assert(err == nil, "re-encoding succeeds")
	vr.Assert(bytes.Equal(out, consumed), "re-encoding reproduces consumed bytes")
	vr.ObserveBytes("out", out)
	vr.Cover("accepted")
}

// C19: an OBJECT IDENTIFIER accepted by the reader re-encodes to the consumed bytes.
// verif: covers=accepted,rejected
func VerifH_C19_cb_oid() {
	max := 5
	if vr.Tier() == 1 {
		max = 7
	}
	n := vr.Int("n", 0, max)
	body := vr.Bytes("body", n)
	in := append([]byte{byte(asn1.OBJECT_IDENTIFIER), byte(n)}, body...)
	s := String(in)
	var oid encoding_asn1.ObjectIdentifier
	if !s.ReadASN1ObjectIdentifier(&oid) {
		vr.Cover("rejected")
		return
	}
	vr.Assert(len(s) == 0, "whole element consumed")
	var b Builder
	b.AddASN1ObjectIdentifier(oid)
	out, err := b.Bytes()
	vr.Assert(err == nil, "re-encoding succeeds")
	vr.Assert(bytes.Equal(out, in), "re-encoding reproduces consumed bytes")
	vr.Cover("accepted")
}

// derElem is the harness's independent reference for one short-form DER element
// at the start of in: ok iff in holds tag, a short-form length and that many bytes.
func derShortElem(in []byte) (tag byte, body []byte, total int, ok bool) {
	if len(in) < 2 || in[0]&0x1f == 0x1f || in[1]&0x80 != 0 || 2+int(in[1]) > len(in) {
		return 0, nil, 0, false
	}
	return in[0], in[2 : 2+int(in[1])], 2 + int(in[1]), true
}

// C19: INTEGER contents accepted by the int64/uint64 readers re-encode identically.
// verif: covers=i64-accepted,i64-rejected,u64-accepted,u64-rejected
func VerifH_C19_cb_integer() {
	n := vr.Int("n", 0, 10)
	body := vr.Bytes("body", n)
	in := append([]byte{byte(asn1.INTEGER), byte(n)}, body...)
	{
		s := String(in)
		var v int64
		if s.readASN1Int64(&v) {
			vr.Assert(len(s) == 0, "int64: element consumed")
			var b Builder
			b.AddASN1Int64(v)
			out, err := b.Bytes()
			vr.Assert(err == nil && bytes.Equal(out, in), "int64: re-encoding reproduces input")
			vr.Cover("i64-accepted")
		} else {
			vr.Cover("i64-rejected")
		}
	}
	{
		s := String(in)
		var v uint64
		if s.readASN1Uint64(&v) {
			vr.Assert(len(s) == 0, "uint64: element consumed")
			var b Builder
			b.AddASN1Uint64(v)
			out, err := b.Bytes()
			vr.Assert(err == nil && bytes.Equal(out, in), "uint64: re-encoding reproduces input")
			vr.Cover("u64-accepted")
		} else {
			vr.Cover("u64-rejected")
		}
	}
}

// C19: tagged INTEGER / ENUMERATED readers.
// verif: covers=tag-accepted,enum-accepted
func VerifH_C19_cb_integer_tagged() {
	n := vr.Int("n", 0, 9)
	body := vr.Bytes("body", n)
	tag := asn1.Tag(vr.U8("tag"))
	vr.Assume(tag&0x1f != 0x1f)
	in := append([]byte{byte(tag), byte(n)}, body...)
	{
		s := String(in)
		var v int64
		if s.ReadASN1Int64WithTag(&v, tag) {
			var b Builder
			b.AddASN1Int64WithTag(v, tag)
			out, err := b.Bytes()
			vr.Assert(err == nil && bytes.Equal(out, in), "tagged int64: re-encoding reproduces input")
			vr.Cover("tag-accepted")
		}
	}
	if tag == asn1.ENUM {
		s := String(in)
		var e int
		if s.ReadASN1Enum(&e) {
			var b Builder
			b.AddASN1Enum(int64(e))
			out, err := b.Bytes()
			vr.Assert(err == nil && bytes.Equal(out, in), "enum: re-encoding reproduces input")
			vr.Cover("enum-accepted")
		}
	}
}

// C19: BOOLEAN and BIT STRING.
// verif: covers=bool-accepted,bits-accepted,bits-rejected
func VerifH_C19_cb_bool_bits() {
	n := vr.Int("n", 0, 5)
	body := vr.Bytes("body", n)
	{
		in := append([]byte{byte(asn1.BOOLEAN), byte(n)}, body...)
		s := String(in)
		var v bool
		if s.ReadASN1Boolean(&v) {
			var b Builder
			b.AddASN1Boolean(v)
			out, err := b.Bytes()
			vr.Assert(err == nil && bytes.Equal(out, in), "boolean: re-encoding reproduces input")
			vr.Cover("bool-accepted")
		}
	}
	{
		in := append([]byte{byte(asn1.BIT_STRING), byte(n)}, body...)
		s := String(in)
		var bs encoding_asn1.BitString
		if s.ReadASN1BitString(&bs) {
			vr.Assert(len(s) == 0, "bit string consumed")
			pad := len(bs.Bytes)*8 - bs.BitLength
			vr.Assert(pad >= 0 && pad <= 7, "padding count in range")
			vr.Assert(int(body[0]) == pad, "padding count is the encoded one")
			if len(bs.Bytes) > 0 {
				vr.Assert(bs.Bytes[len(bs.Bytes)-1]&(1<<uint(pad)-1) == 0, "padding bits are zero")
			} else {
				vr.Assert(pad == 0, "empty bit string has no padding")
			}
			if pad == 0 {
				var b Builder
				b.AddASN1BitString(bs.Bytes)
				out, err := b.Bytes()
				vr.Assert(err == nil && bytes.Equal(out, in), "bit string: re-encoding reproduces input")
			}
			vr.Cover("bits-accepted")
		} else {
			vr.Cover("bits-rejected")
		}
	}
}

// C19: long-form lengths: only the minimal form is accepted (filler bodies).
// verif: covers=long-accepted,long-rejected
func VerifH_C19_cb_long_header() {
	sizes := []int{127, 128, 255, 256}
	if vr.Tier() == 1 {
		sizes = append(sizes, 65535, 65536)
	}
	bodyLen := sizes[vr.Int("size", 0, len(sizes)-1)]
	hn := vr.Int("hn", 2, 6)
	hdr := vr.Bytes("hdr", hn)
	in := append(append([]byte{}, hdr...), make([]byte, bodyLen)...)
	s := String(in)
	var body String
	var tag asn1.Tag
	if !s.ReadAnyASN1(&body, &tag) {
		vr.Cover("long-rejected")
		return
	}
	consumed := in[:len(in)-len(s)]
	var b Builder
	b.AddASN1(tag, func(c *Builder) { c.AddBytes(body) })
	out, err := b.Bytes()
	vr.Assert(err == nil && bytes.Equal(out, consumed), "long form: re-encoding reproduces consumed bytes")
	vr.Cover("long-accepted")
}
