//go:build verif

package cryptobyte

import (
	"bytes"

	"github.com/zmap/zcrypto/cryptobyte/asn1"
	encoding_asn1 "github.com/zmap/zcrypto/encoding/asn1"
	vr "github.com/zmap/zcrypto/internal/verifrt"
)

// C21: optional-element readers consume an element only when its tag is present,
// and then exactly that element.
// verif: covers=absent,present-ok,present-bad
func VerifH_C21_opt_boolean() {
	n := vr.Int("n", 0, 5)
	in := vr.Bytes("in", n)
	def := vr.Bool("def")
	s := String(in)
	var out bool
	ok := s.ReadOptionalASN1Boolean(&out, def)
	present := len(in) > 0 && in[0] == byte(asn1.BOOLEAN)
	if !present {
		vr.Assert(ok && out == def, "absent: default returned")
		vr.Assert(len(s) == len(in), "absent: input untouched")
		vr.Cover("absent")
		return
	}
	_, body, total, wf := derShortElem(in)
	wf = wf && len(body) == 1 && (body[0] == 0 || body[0] == 0xff)
	if wf {
		vr.Assert(ok, "present well-formed BOOLEAN accepted")
		vr.Assert(out == (body[0] == 0xff), "present: value returned")
		vr.Assert(len(s) == len(in)-total, "present: exactly the element consumed")
		vr.Cover("present-ok")
	} else {
		vr.Assert(!ok, "present malformed BOOLEAN rejected")
		vr.Cover("present-bad")
	}
}

// verif: covers=absent,present-ok,present-bad
func VerifH_C21_opt_element() {
	n := vr.Int("n", 0, 5)
	in := vr.Bytes("in", n)
	tag := asn1.Tag(vr.U8("tag"))
	vr.Assume(tag&0x1f != 0x1f)
	isPresent := len(in) > 0 && in[0] == byte(tag)
	_, body, total, wf := derShortElem(in)
	{
		s := String(in)
		var out String
		var present bool
		ok := s.ReadOptionalASN1(&out, &present, tag)
		vr.Assert(present == isPresent, "presence reported")
		if !isPresent {
			vr.Assert(ok && len(s) == len(in), "absent: untouched")
			vr.Cover("absent")
		} else if wf {
			vr.Assert(ok && bytes.Equal(out, body) && len(s) == len(in)-total, "present: exactly the element")
			vr.Cover("present-ok")
		} else {
			vr.Assert(!ok, "present malformed rejected")
			vr.Cover("present-bad")
		}
	}
	{
		s := String(in)
		ok := s.SkipOptionalASN1(tag)
		if !isPresent {
			vr.Assert(ok && len(s) == len(in), "skip absent: untouched")
		} else if wf {
			vr.Assert(ok && len(s) == len(in)-total, "skip present: exactly the element")
		} else {
			vr.Assert(!ok, "skip malformed rejected")
		}
	}
}

// verif: covers=absent,present-ok,present-bad
func VerifH_C21_opt_octet_string() {
	n := vr.Int("n", 0, 6)
	in := vr.Bytes("in", n)
	tag := asn1.Tag(vr.U8("tag"))
	vr.Assume(tag&0x1f != 0x1f)
	isPresent := len(in) > 0 && in[0] == byte(tag)
	_, body, total, wf := derShortElem(in)
	var inner []byte
	if wf {
		t2, b2, tot2, wf2 := derShortElem(body)
		wf = wf2 && t2 == byte(asn1.OCTET_STRING) && tot2 == len(body)
		inner = b2
	}
	s := String(in)
	var out []byte
	var present bool
	ok := s.ReadOptionalASN1OctetString(&out, &present, tag)
	if !isPresent {
		vr.Assert(ok && !present && out == nil && len(s) == len(in), "absent: nil, untouched")
		vr.Cover("absent")
	} else if wf {
		vr.Assert(ok && present && bytes.Equal(out, inner) && len(s) == len(in)-total, "present: value and extent")
		vr.Cover("present-ok")
	} else {
		vr.Assert(!ok, "present malformed rejected")
		vr.Cover("present-bad")
	}
}

// C21: write/read programs. A symbolic sequence of typed writes followed by
// arbitrary trailing bytes is read back with the matching readers.
// verif: covers=done maxpaths=400000
func VerifH_C21_program() {
	// quick: one arbitrary op between a fixed-width prefix op and the trailing
	// bytes; thorough: two arbitrary ops.
	k := 1
	if vr.Tier() == 1 {
		k = 2
	}
	const nKinds = 16
	kinds := make([]int, k)
	u := make([]uint64, k)
	bs := make([][]byte, k)
	for i := 0; i < k; i++ {
		kinds[i] = vr.Int("kind", 0, nKinds-1)
		u[i] = vr.U64("val")
		bs[i] = vr.Bytes("bytes", vr.Int("blen", 0, 2))
	}
	trail := vr.Bytes("trail", vr.Int("tlen", 0, 2))
	var b Builder
	for i := 0; i < k; i++ {
		v, p := u[i], bs[i]
		switch kinds[i] {
		case 0:
			b.AddUint8(uint8(v))
		case 1:
			b.AddUint16(uint16(v))
		case 2:
			b.AddUint24(uint32(v))
		case 3:
			b.AddUint32(uint32(v))
		case 4:
			b.AddBytes(p)
		case 5:
			b.AddUint8LengthPrefixed(func(c *Builder) { c.AddBytes(p) })
		case 6:
			b.AddUint16LengthPrefixed(func(c *Builder) {
				c.AddUint8LengthPrefixed(func(d *Builder) { d.AddBytes(p) })
				c.AddUint8(uint8(v))
			})
		case 7:
			b.AddUint24LengthPrefixed(func(c *Builder) { c.AddUint16(uint16(v)); c.AddBytes(p) })
		case 8:
			b.AddASN1Int64(int64(v))
		case 9:
			b.AddASN1Uint64(v)
		case 10:
			b.AddASN1Enum(int64(int32(v)))
		case 11:
			b.AddASN1Boolean(v&1 == 1)
		case 12:
			b.AddASN1OctetString(p)
		case 13:
			b.AddASN1NULL()
		case 14:
			b.AddASN1BitString(p)
		case 15:
			b.AddASN1(asn1.Tag(2).ContextSpecific().Constructed(), func(c *Builder) {
				c.AddASN1Int64(int64(int16(v)))
				c.AddASN1OctetString(p)
			})
		}
	}
	b.AddBytes(trail)
	out, err := b.Bytes()
	vr.Assert(err == nil, "building succeeds")
	s := String(out)
	for i := 0; i < k; i++ {
		v, p := u[i], bs[i]
		switch kinds[i] {
		case 0:
			var x uint8
			vr.Assert(s.ReadUint8(&x) && x == uint8(v), "u8")
		case 1:
			var x uint16
			vr.Assert(s.ReadUint16(&x) && x == uint16(v), "u16")
		case 2:
			var x uint32
			vr.Assert(s.ReadUint24(&x) && x == uint32(v)&0xffffff, "u24")
		case 3:
			var x uint32
			vr.Assert(s.ReadUint32(&x) && x == uint32(v), "u32")
		case 4:
			// ReadBytes(_, 0) on an exhausted String reports failure (nil read);
			// zero-length raw reads are outside the claim.
			if len(p) > 0 {
				var x []byte
				vr.Assert(s.ReadBytes(&x, len(p)) && bytes.Equal(x, p), "bytes")
			}
		case 5:
			var c String
			vr.Assert(s.ReadUint8LengthPrefixed(&c) && bytes.Equal(c, p), "u8 length-prefixed")
		case 6:
			var c, d String
			var x uint8
			vr.Assert(s.ReadUint16LengthPrefixed(&c), "u16 length-prefixed")
			vr.Assert(c.ReadUint8LengthPrefixed(&d) && bytes.Equal(d, p), "nested u8 length-prefixed")
			vr.Assert(c.ReadUint8(&x) && x == uint8(v) && c.Empty(), "nested tail")
		case 7:
			var c String
			var x uint16
			vr.Assert(s.ReadUint24LengthPrefixed(&c), "u24 length-prefixed")
			vr.Assert(c.ReadUint16(&x) && x == uint16(v) && bytes.Equal(c, p), "u24 block contents")
		case 8:
			var x int64
			vr.Assert(s.readASN1Int64(&x) && x == int64(v), "asn1 int64")
		case 9:
			var x uint64
			vr.Assert(s.readASN1Uint64(&x) && x == v, "asn1 uint64")
		case 10:
			var x int
			vr.Assert(s.ReadASN1Enum(&x) && x == int(int32(v)), "asn1 enum")
		case 11:
			var x bool
			vr.Assert(s.ReadASN1Boolean(&x) && x == (v&1 == 1), "asn1 boolean")
		case 12:
			var x []byte
			vr.Assert(s.ReadASN1Bytes(&x, asn1.OCTET_STRING) && bytes.Equal(x, p), "asn1 octet string")
		case 13:
			var c String
			vr.Assert(s.ReadASN1(&c, asn1.NULL) && len(c) == 0, "asn1 null")
		case 14:
			var x encoding_asn1.BitString
			vr.Assert(s.ReadASN1BitString(&x) && bytes.Equal(x.Bytes, p) && x.BitLength == 8*len(p), "asn1 bit string")
			// and the byte-oriented reader
		case 15:
			var c String
			var x int64
			var o []byte
			vr.Assert(s.ReadASN1(&c, asn1.Tag(2).ContextSpecific().Constructed()), "tagged element")
			vr.Assert(c.ReadASN1Int64WithTag(&x, asn1.INTEGER) && x == int64(int16(v)), "tagged int")
			vr.Assert(c.ReadASN1Bytes(&o, asn1.OCTET_STRING) && bytes.Equal(o, p) && c.Empty(), "tagged octets")
		}
	}
	vr.Assert(bytes.Equal(s, trail), "exactly the unread remainder is left")
	vr.Cover("done")
}

// C21: OBJECT IDENTIFIER write/read.
// verif: covers=valid,invalid
func VerifH_C21_oid() {
	n := vr.Int("n", 2, 4)
	oid := make(encoding_asn1.ObjectIdentifier, n)
	for i := range oid {
		oid[i] = int(int32(vr.U32("arc")))
	}
	var b Builder
	b.AddASN1ObjectIdentifier(oid)
	out, err := b.Bytes()
	if err != nil {
		vr.Cover("invalid")
		return
	}
	s := String(out)
	var got encoding_asn1.ObjectIdentifier
	ok := s.ReadASN1ObjectIdentifier(&got)
	// the reader documents a 4-byte (28-bit) cap per sub-identifier
	small := true
	for i, a := range oid {
		lim := 1 << 28
		if i == 1 {
			lim -= 80
		}
		if i >= 1 && a >= lim {
			small = false
		}
	}
	if small {
		vr.Assert(ok && got.Equal(oid) && len(s) == 0, "OID reads back")
		vr.Cover("valid")
	}
}

// C21: long-form ASN.1 length back-patching (filler bodies).
// verif: covers=done
func VerifH_C21_long_asn1() {
	sizes := []int{126, 127, 128, 255, 256}
	if vr.Tier() == 1 {
		sizes = append(sizes, 65535, 65536)
	}
	bodyLen := sizes[vr.Int("size", 0, len(sizes)-1)]
	head := vr.Bytes("head", 2)
	tail := vr.Bytes("tail", 2)
	body := make([]byte, bodyLen)
	copy(body, head)
	copy(body[bodyLen-2:], tail)
	pre := vr.U8("pre")
	var b Builder
	b.AddUint8(pre)
	b.AddASN1(asn1.SEQUENCE, func(c *Builder) {
		c.AddASN1OctetString(body)
	})
	b.AddUint8(^pre)
	out, err := b.Bytes()
	vr.Assert(err == nil, "building succeeds")
	s := String(out)
	var x, y uint8
	var seq String
	var got []byte
	vr.Assert(s.ReadUint8(&x) && x == pre, "prefix byte")
	vr.Assert(s.ReadASN1(&seq, asn1.SEQUENCE), "sequence read")
	vr.Assert(seq.ReadASN1Bytes(&got, asn1.OCTET_STRING) && seq.Empty(), "octet string read")
	vr.Assert(bytes.Equal(got, body), "body intact after the length shift")
	vr.Assert(s.ReadUint8(&y) && y == ^pre && s.Empty(), "suffix byte")
	vr.Cover("done")
}

// C21: fixed-size builders report capacity errors instead of growing.
// verif: covers=fits,overflows
func VerifH_C21_fixed_builder() {
	c := vr.Int("cap", 0, 4)
	n := vr.Int("n", 0, 5)
	data := vr.Bytes("data", n)
	b := NewFixedBuilder(make([]byte, 0, c))
	b.AddBytes(data)
	out, err := b.Bytes()
	if n <= c {
		vr.Assert(err == nil && bytes.Equal(out, data), "fits: bytes returned")
		vr.Cover("fits")
	} else {
		vr.Assert(err != nil, "overflow reported")
		vr.Cover("overflows")
	}
}
