//go:build verif

package cryptobyte

import (
	"time"

	"github.com/zmap/zcrypto/cryptobyte/asn1"
	encoding_asn1 "github.com/zmap/zcrypto/encoding/asn1"
	vr "github.com/zmap/zcrypto/internal/verifrt"
)

// C01: every exported String reader is total on arbitrary input.
// verif: covers=done
func VerifH_C01_cb_readers_total() {
	max := 7
	if vr.Tier() == 1 {
		max = 9
	}
	in := vr.Bytes("in", vr.Int("n", 0, max))
	s := String(in)
	tag := asn1.Tag(vr.U8("tag"))
	which := vr.Int("which", 0, 21)
	var sub String
	var bs []byte
	var u8 uint8
	var u16 uint16
	var u32 uint32
	var i64 int64
	var u64 uint64
	var b, present bool
	var e int
	ok := false
	switch which {
	case 0:
		ok = s.ReadUint8(&u8)
	case 1:
		ok = s.ReadUint16(&u16)
	case 2:
		ok = s.ReadUint24(&u32)
	case 3:
		ok = s.ReadUint32(&u32)
	case 4:
		ok = s.ReadUint8LengthPrefixed(&sub)
	case 5:
		ok = s.ReadUint16LengthPrefixed(&sub)
	case 6:
		ok = s.ReadUint24LengthPrefixed(&sub)
	case 7:
		ok = s.ReadBytes(&bs, int(int8(vr.U8("count"))))
	case 8:
		ok = s.CopyBytes(make([]byte, vr.Int("cn", 0, 4)))
	case 9:
		ok = s.Skip(int(int8(vr.U8("skip"))))
	case 10:
		ok = s.ReadASN1Boolean(&b)
	case 11:
		ok = s.readASN1Int64(&i64)
	case 12:
		ok = s.readASN1Uint64(&u64)
	case 13:
		ok = s.ReadASN1Int64WithTag(&i64, tag)
	case 14:
		ok = s.ReadASN1Enum(&e)
	case 15:
		var oid encoding_asn1.ObjectIdentifier
		ok = s.ReadASN1ObjectIdentifier(&oid)
	case 16:
		var bits encoding_asn1.BitString
		ok = s.ReadASN1BitString(&bits)
		if ok {
			bits.At(int(int8(vr.U8("bit"))))
			bits.RightAlign()
		}
	case 17:
		ok = s.ReadASN1BitStringAsBytes(&bs)
	case 18:
		ok = s.ReadASN1Bytes(&bs, tag) || s.ReadASN1(&sub, tag) || s.ReadASN1Element(&sub, tag)
	case 19:
		var t2 asn1.Tag
		ok = s.ReadAnyASN1(&sub, &t2) || s.ReadAnyASN1Element(&sub, &t2)
		s.PeekASN1Tag(tag)
		s.SkipASN1(tag)
	case 20:
		ok = s.ReadOptionalASN1(&sub, &present, tag) && s.SkipOptionalASN1(tag)
	case 21:
		ok = s.ReadOptionalASN1OctetString(&bs, &present, tag) || s.ReadOptionalASN1Boolean(&b, false)
	}
	vr.Assert(len(s) <= len(in), "readers never grow the input")
	if !ok {
		vr.Cover("rejected")
	}
	vr.Cover("done")
}

// C01: the time readers are total (time.Parse runs concretely per explored text
// shape; bounded to short inputs because every byte forks on its character class).
// verif: covers=done
func VerifH_C01_cb_time_readers_total() {
	n := vr.Int("n", 0, 3)
	body := vr.Bytes("body", n)
	var t time.Time
	{
		in := append([]byte{byte(asn1.GeneralizedTime), byte(n)}, body...)
		s := String(in)
		ok := s.ReadASN1GeneralizedTime(&t)
		vr.Assert(!ok, "a GeneralizedTime needs at least 15 bytes")
	}
	{
		in := append([]byte{byte(asn1.UTCTime), byte(n)}, body...)
		s := String(in)
		ok := s.ReadASN1UTCTime(&t)
		vr.Assert(!ok, "a UTCTime needs at least 11 bytes")
	}
	vr.Cover("done")
}
