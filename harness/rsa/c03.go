//go:build verif

package rsa

// C03 shares the byte-level halves of RSA verification with C23.

// verif: covers=accepted,rejected
func VerifH_C03_rsa_pss_verify_spec() { VerifH_C23_pss_verify_spec() }

// verif: covers=accepted,rejected
func VerifH_C03_rsa_pkcs1v15_verify_spec() { VerifH_C23_pkcs1v15_verify_spec() }

// verif: covers=done
func VerifH_C03_rsa_pss_encode_verifies() { VerifH_C23_pss_encode() }

// C03: signatures of the wrong length are not genuine signatures (same harness as C23).
// verif: covers=right-length,wrong-length
func VerifH_C03_rsa_signature_length() { VerifH_C23_signature_length_is_modulus_length() }
