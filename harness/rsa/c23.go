//go:build verif

package rsa

import (
	"bytes"
	"crypto"
	"hash"
	"math/big"

	vr "github.com/zmap/zcrypto/internal/verifrt"
)

// ideal hash (uninterpreted function of the bytes written)
type mHash struct {
	size int
	buf  []byte
}

func (h *mHash) Write(p []byte) (int, error) { h.buf = append(h.buf, p...); return len(p), nil }
func (h *mHash) Sum(b []byte) []byte         { return append(b, refHash(h.size, h.buf)...) }
func (h *mHash) Reset()                      { h.buf = nil }
func (h *mHash) Size() int                   { return h.size }
func (h *mHash) BlockSize() int              { return 64 }

func refHash(size int, data []byte) []byte { return vr.UF("H", size, append([]byte{}, data...)) }

func cat(parts ...[]byte) []byte {
	var out []byte
	for _, p := range parts {
		out = append(out, p...)
	}
	return out
}

// RFC 8017 §B.2.1 MGF1.
func refMGF1(hLen int, seed []byte, n int) []byte {
	var out []byte
	for c := 0; len(out) < n; c++ {
		out = append(out, refHash(hLen, cat(seed, []byte{0, 0, byte(c >> 8), byte(c)}))...)
	}
	return out[:n]
}

// RFC 8017 §9.1.1 EMSA-PSS-ENCODE.
func refPSSEncode(mHash []byte, emBits int, salt []byte, hLen int) []byte {
	emLen := (emBits + 7) / 8
	h := refHash(hLen, cat(make([]byte, 8), mHash, salt))
	db := cat(make([]byte, emLen-len(salt)-hLen-2), []byte{1}, salt)
	mask := refMGF1(hLen, h, len(db))
	for i := range db {
		db[i] ^= mask[i]
	}
	db[0] &= 0xff >> uint(8*emLen-emBits)
	return cat(db, h, []byte{0xbc})
}

// RFC 8017 §9.1.2 EMSA-PSS-VERIFY with a known salt length.
func refPSSVerify(mHash, em []byte, emBits, sLen, hLen int) bool {
	emLen := (emBits + 7) / 8
	if len(em) != emLen || emLen < hLen+sLen+2 {
		return false
	}
	ok := em[emLen-1] == 0xbc
	db, h := em[:emLen-hLen-1], em[emLen-hLen-1:emLen-1]
	top := byte(0xff) >> uint(8*emLen-emBits)
	ok = vr.And(ok, em[0]&^top == 0)
	mask := refMGF1(hLen, h, len(db))
	un := make([]byte, len(db))
	for i := range db {
		un[i] = db[i] ^ mask[i]
	}
	un[0] &= top
	if sLen == PSSSaltLengthAuto {
		// Go's extension: the salt is whatever follows the first 0x01 of DB
		first := -1
		for i := len(un) - 1; i >= 0; i-- {
			if un[i] == 1 {
				first = i
			}
		}
		if first < 0 {
			return false
		}
		sLen = len(un) - first - 1
	}
	ps := emLen - hLen - sLen - 2
	for i := 0; i < ps; i++ {
		ok = vr.And(ok, un[i] == 0)
	}
	ok = vr.And(ok, un[ps] == 1)
	salt := un[len(un)-sLen:]
	return vr.And(ok, vr.BytesEq(refHash(hLen, cat(make([]byte, 8), mHash, salt)), h))
}

// C23/C03: emsaPSSEncode equals the RFC encoding and emsaPSSVerify accepts it.
// verif: covers=done
func VerifH_C23_pss_encode() {
	const hLen = 2
	sLen := vr.Int("sLen", 0, 2)
	pad := vr.Int("ps", 0, 1)
	emLen := hLen + sLen + 2 + pad
	emBits := 8*emLen - vr.Int("residue", 0, 7)
	mh := vr.Bytes("mHash", hLen)
	salt := vr.Bytes("salt", sLen)
	em, err := emsaPSSEncode(mh, emBits, salt, &mHash{size: hLen})
	vr.Assert(err == nil, "encoding succeeds when emLen >= hLen + sLen + 2")
	vr.Assert(bytes.Equal(em, refPSSEncode(mh, emBits, salt, hLen)), "EM equals EMSA-PSS-ENCODE (RFC 8017 §9.1.1)")
	for _, mode := range []int{sLen, PSSSaltLengthAuto} {
		vr.Assert(emsaPSSVerify(mh, append([]byte{}, em...), emBits, mode, &mHash{size: hLen}) == nil, "the encoding verifies (given and auto-detected salt length)")
	}
	_, err = emsaPSSEncode(mh, 8*(hLen+sLen+1), salt, &mHash{size: hLen})
	vr.Assert(err != nil, "too short an encoded message is refused")
	vr.Cover("done")
}

// C23/C03: emsaPSSVerify accepts exactly the strings with the RFC 8017 §9.1.2 structure.
// verif: covers=accepted,rejected
func VerifH_C23_pss_verify_spec() {
	const hLen = 2
	sLen := vr.Int("sLen", 0, 2)
	emLen := vr.Int("emLen", 1, hLen+sLen+3)
	emBits := 8*emLen - vr.Int("residue", 0, 7)
	mh := vr.Bytes("mHash", hLen)
	em := vr.Bytes("em", emLen)
	err := emsaPSSVerify(mh, append([]byte{}, em...), emBits, sLen, &mHash{size: hLen})
	want := refPSSVerify(mh, em, emBits, sLen, hLen)
	vr.Assert((err == nil) == want, "accepted exactly when EM has the EMSA-PSS structure for this message hash")
	if err == nil {
		vr.Cover("accepted")
	} else {
		vr.Cover("rejected")
	}
}

// C23/C03: pkcs1v15ConstructEM equals EMSA-PKCS1-v1_5 (RFC 8017 §9.2) and
// VerifyPKCS1v15 accepts exactly when the public operation yields that encoding.
// verif: covers=accepted,rejected
func VerifH_C23_pkcs1v15_verify_spec() {
	useMD5 := vr.Bool("md5")
	k := vr.Pick(vr.Int("k", 10, 13))
	hash := crypto.Hash(0)
	hl := vr.Int("hashedLen", 0, 2)
	var prefix []byte
	if useMD5 {
		hash, hl, k = crypto.MD5, 16, vr.Pick(vr.Int("kmd5", 44, 46))
		prefix = []byte{0x30, 0x20, 0x30, 0x0c, 0x06, 0x08, 0x2a, 0x86, 0x48, 0x86, 0xf7, 0x0d, 0x02, 0x05, 0x05, 0x00, 0x04, 0x10}
	}
	hashed := vr.Bytes("hashed", hl)
	// modulus of exactly k bytes: 2^(8k-1) + 1 (its arithmetic is replaced below)
	n := new(big.Int).Lsh(big.NewInt(1), uint(8*k-1))
	n.Add(n, big.NewInt(1))
	pub := &PublicKey{N: n, E: big.NewInt(65537)}
	emOut := vr.Bytes("publicOpResult", k)
	opOK := vr.Bool("publicOpSucceeds")
	vr.Stub("github.com/zmap/zcrypto/rsa.encrypt", func(p *PublicKey, in []byte) ([]byte, error) {
		if !opOK {
			return nil, ErrVerification
		}
		return emOut, nil
	})
	sig := vr.Bytes("sig", vr.Int("sigLen", k-1, k))
	err := VerifyPKCS1v15(pub, hash, hashed, sig)
	tLen := len(prefix) + hl
	want := len(sig) == k && opOK && k >= tLen+11
	if want {
		ref := cat([]byte{0, 1}, bytes.Repeat([]byte{0xff}, k-tLen-3), []byte{0}, prefix, hashed)
		want = bytes.Equal(emOut, ref)
		em, cerr := pkcs1v15ConstructEM(pub, hash, hashed)
		vr.Assert(cerr == nil && bytes.Equal(em, ref), "constructed EM = 00 01 FF..FF 00 || DigestInfo prefix || H with at least 8 FF bytes")
	}
	vr.Assert((err == nil) == want, "accepted exactly when the public operation yields the EMSA-PKCS1-v1_5 encoding of the digest")
	if err == nil {
		vr.Cover("accepted")
	} else {
		vr.Cover("rejected")
	}
}

// C23: operations on malformed public keys return an error instead of panicking.
// verif: covers=malformed,wellformed
func VerifH_C23_malformed_public_key() {
	mk := func(label string) *big.Int {
		switch vr.Pick(vr.Int(label, 0, 4)) {
		case 0:
			return nil
		case 1:
			return big.NewInt(0)
		case 2:
			return big.NewInt(-int64(vr.U8(label+"-neg")) - 1)
		case 3:
			return big.NewInt(1)
		}
		return big.NewInt(int64(vr.U16(label+"-pos")) + 2)
	}
	pub := &PublicKey{N: mk("N"), E: mk("E")}
	malformed := pub.N == nil || pub.E == nil || pub.N.Sign() <= 0 || pub.E.Cmp(big.NewInt(2)) < 0
	msg := vr.Bytes("msg", vr.Int("msgLen", 0, 2))
	var err error
	op := vr.Pick(vr.Int("op", 0, 3))
	panicked := vr.MayPanic(func() {
		switch op {
		case 0:
			err = VerifyPKCS1v15(pub, crypto.Hash(0), msg, msg)
		case 1:
			// MD4 has no implementation linked in, so its slot carries the ideal hash
			// (the standard SHA-256 compression function is outside the encoding).
			crypto.RegisterHash(crypto.MD4, func() hash.Hash { return &mHash{size: 2} })
			err = VerifyPSS(pub, crypto.MD4, msg, msg, nil)
		case 2:
			_, err = EncryptPKCS1v15(c23Rand{}, pub, msg)
		case 3:
			_, err = EncryptOAEP(&mHash{size: 2}, c23Rand{}, pub, msg, nil)
		}
	})
	vr.Assert(!panicked, "no operation on a public key panics")
	if malformed {
		vr.Assert(err != nil, "a malformed public key yields an error")
		vr.Cover("malformed")
	} else {
		vr.Cover("wellformed")
	}
}

type c23Rand struct{}

func (c23Rand) Read(p []byte) (int, error) {
	for i := range p {
		p[i] = 1 // non-zero filler: the padding generator retries zero bytes
	}
	return len(p), nil
}

// incCounter is a 32-bit big-endian increment.
// verif: covers=done
func VerifH_C23_inc_counter() {
	var c [4]byte
	copy(c[:], vr.Bytes("c", 4))
	v := uint32(c[0])<<24 | uint32(c[1])<<16 | uint32(c[2])<<8 | uint32(c[3])
	incCounter(&c)
	w := uint32(c[0])<<24 | uint32(c[1])<<16 | uint32(c[2])<<8 | uint32(c[3])
	vr.Assert(w == v+1, "counter incremented as a 32-bit big-endian integer")
	vr.Cover("done")
}

// C23: OAEP decryption with distinct label and MGF hashes. The size guard must be
// taken from the label hash (it fixes the encoded-message layout): too small a key
// is refused with ErrDecryption, and no ciphertext makes the routine panic. The raw
// RSA operation is environment (arbitrary encoded message of the key's size).
// verif: covers=refused,decoded
func VerifH_C23_oaep_decrypt_two_hashes() {
	k := 7
	priv := &PrivateKey{PublicKey: PublicKey{N: new(big.Int).Lsh(big.NewInt(1), uint(8*k-1)), E: big.NewInt(3)}}
	em := vr.Bytes("em", k)
	vr.Stub("github.com/zmap/zcrypto/rsa.decrypt", func(p *PrivateKey, c []byte, check bool) ([]byte, error) {
		return append([]byte{}, em...), nil
	})
	hLen, mLen := vr.Pick(vr.Int("labelHashSize", 1, 4)), vr.Pick(vr.Int("mgfHashSize", 1, 4))
	var out []byte
	var err error
	panicked := vr.MayPanic(func() {
		out, err = decryptOAEP(&mHash{size: hLen}, &mHash{size: mLen}, nil, priv, make([]byte, k), nil)
	})
	vr.Assert(!panicked, "OAEP decryption never panics")
	if k < 2*hLen+2 {
		vr.Assert(err == ErrDecryption, "a key too small for the label hash is refused")
		vr.Cover("refused")
		return
	}
	if err == nil {
		vr.Assert(len(out) <= k-2*hLen-2, "a decoded message fits the space the label hash leaves")
		vr.Cover("decoded")
	}
}

// C23/C03: a signature is an octet string of exactly the modulus length (RFC 8017 §8.1.2,
// §8.2.2 step 1). With the public operation and the encoding check made to succeed
// whenever they are reached, both verifiers must still refuse every other length.
// verif: covers=right-length,wrong-length
func VerifH_C23_signature_length_is_modulus_length() {
	crypto.RegisterHash(crypto.MD4, func() hash.Hash { return &mHash{size: 2} })
	k := 13
	n := new(big.Int).Lsh(big.NewInt(1), uint(8*k-1))
	n.Add(n, big.NewInt(1))
	pub := &PublicKey{N: n, E: big.NewInt(3)}
	hashed := vr.Bytes("hashed", 1)
	pss := vr.Bool("pss")
	vr.Stub("github.com/zmap/zcrypto/rsa.encrypt", func(p *PublicKey, in []byte) ([]byte, error) {
		if pss {
			return make([]byte, k), nil
		}
		return pkcs1v15ConstructEM(p, crypto.Hash(0), hashed)
	})
	vr.Stub("github.com/zmap/zcrypto/rsa.emsaPSSVerify", func(mHash, em []byte, emBits, sLen int, h hash.Hash) error { return nil })
	sig := vr.Bytes("sig", vr.Int("sigLen", k-2, k+1))
	var err error
	if pss {
		err = VerifyPSS(pub, crypto.MD4, hashed, sig, nil)
	} else {
		err = VerifyPKCS1v15(pub, crypto.Hash(0), hashed, sig)
	}
	if len(sig) == k {
		vr.Assert(err == nil, "a signature of the modulus length reaches the public operation and the encoding check")
		vr.Cover("right-length")
	} else {
		vr.Assert(err != nil, "a signature of any other length is refused")
		vr.Cover("wrong-length")
	}
}

// C23: when the modulus has 8k+1 bits the encoded message has emLen = k octets while the
// public operation yields k+1 octets; RFC 8017 §8.1.2 step 2c (I2OSP of the message
// representative into emLen octets) — and crypto/rsa — refuse the signature unless the
// surplus leading octet is zero. The public operation is a stub returning arbitrary
// k+1 octets; the EMSA-PSS check is made to succeed whenever it is reached and must be
// handed exactly the trailing emLen octets.
// verif: covers=leading-zero,leading-nonzero
func VerifH_C23_pss_surplus_leading_octet() {
	crypto.RegisterHash(crypto.MD4, func() hash.Hash { return &mHash{size: 2} })
	k := 12
	n := new(big.Int).Lsh(big.NewInt(1), uint(8*k)) // bit length 8k+1, Size() = k+1
	n.Add(n, big.NewInt(1))
	pub := &PublicKey{N: n, E: big.NewInt(3)}
	hashed := vr.Bytes("hashed", 1)
	out := vr.Bytes("publicOpResult", k+1)
	var seen []byte
	vr.Stub("github.com/zmap/zcrypto/rsa.encrypt", func(p *PublicKey, in []byte) ([]byte, error) {
		return append([]byte{}, out...), nil
	})
	vr.Stub("github.com/zmap/zcrypto/rsa.emsaPSSVerify", func(mHash, em []byte, emBits, sLen int, h hash.Hash) error {
		seen = append([]byte{}, em...)
		vr.Assert(emBits == 8*k, "emBits is the modulus bit length minus one")
		return nil
	})
	err := VerifyPSS(pub, crypto.MD4, hashed, make([]byte, k+1), nil)
	if out[0] == 0 {
		vr.Assert(err == nil, "a zero surplus octet is stripped and the encoding check decides")
		vr.Assert(vr.BytesEq(seen, out[1:]), "the encoding check sees exactly the trailing emLen octets")
		vr.Cover("leading-zero")
	} else {
		vr.Assert(err != nil, "a non-zero surplus leading octet is refused (message representative out of range)")
		vr.Cover("leading-nonzero")
	}
}
