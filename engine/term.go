package main

// Term DAG for the symbolic executor: Bool, bit-vectors up to 64 bits and
// (for math/big) unbounded integers. Constants are folded eagerly so that
// concrete computation never reaches the solver.

import (
	"fmt"
	"math/big"
	"math/bits"
	"strings"
	"sync/atomic"
)

type Op uint8

const (
	OpConst Op = iota
	OpVar
	// bool
	OpNot
	OpAnd
	OpOr
	OpIte // a ? b : c  (any sort for b,c)
	OpEq
	// bv
	OpAdd
	OpSub
	OpMul
	OpUDiv
	OpURem
	OpSDiv
	OpSRem
	OpBAnd
	OpBOr
	OpBXor
	OpShl
	OpLShr
	OpAShr
	OpBNot
	OpNeg
	OpUlt
	OpUle
	OpSlt
	OpSle
	OpZExt
	OpSExt
	OpExtract // bits [k+w-1 : k] of a
	OpConcat  // a high, b low
	// Int
	OpIAdd
	OpISub
	OpIMul
	OpINeg
	OpILt
	OpILe
	OpBV2Int // unsigned
	OpInt2BV
	OpIDiv // floor-ish: SMT div
	OpIMod
	OpIAbs
)

const (
	WBool = 0
	WInt  = -1
)

type Term struct {
	op      Op
	w       int // 0 bool, -1 Int, else bit-vector width
	a, b, c *Term
	k       uint64   // const value / extract low bit
	big     *big.Int // Int const
	name    string   // var
	id      int64
}

var termCounter int64

func newTerm(op Op, w int, a, b, c *Term) *Term {
	return &Term{op: op, w: w, a: a, b: b, c: c, id: atomic.AddInt64(&termCounter, 1)}
}

func mask(w int) uint64 {
	if w >= 64 {
		return ^uint64(0)
	}
	return (uint64(1) << uint(w)) - 1
}

var constTrue = &Term{op: OpConst, w: WBool, k: 1, id: -1}
var constFalse = &Term{op: OpConst, w: WBool, k: 0, id: -2}

func mkBool(b bool) *Term {
	if b {
		return constTrue
	}
	return constFalse
}

var smallConsts [65][]*Term

func init() {
	for _, w := range []int{8, 16, 32, 64} {
		smallConsts[w] = make([]*Term, 260)
		for i := range smallConsts[w] {
			smallConsts[w][i] = &Term{op: OpConst, w: w, k: uint64(i), id: -int64(1000 + w*1000 + i)}
		}
	}
}

func mkBV(w int, v uint64) *Term {
	v &= mask(w)
	if w <= 64 && smallConsts[w] != nil && v < uint64(len(smallConsts[w])) {
		return smallConsts[w][v]
	}
	return &Term{op: OpConst, w: w, k: v, id: atomic.AddInt64(&termCounter, 1)}
}

func mkInt(v *big.Int) *Term {
	return &Term{op: OpConst, w: WInt, big: new(big.Int).Set(v), id: atomic.AddInt64(&termCounter, 1)}
}

func mkIntI(v int64) *Term { return mkInt(big.NewInt(v)) }

func mkVar(name string, w int) *Term {
	t := newTerm(OpVar, w, nil, nil, nil)
	t.name = name
	return t
}

func (t *Term) isConst() bool { return t.op == OpConst }
func (t *Term) isTrue() bool  { return t.op == OpConst && t.w == WBool && t.k == 1 }
func (t *Term) isFalse() bool { return t.op == OpConst && t.w == WBool && t.k == 0 }

func signExt(v uint64, w int) int64 {
	if w >= 64 {
		return int64(v)
	}
	sh := uint(64 - w)
	return int64(v<<sh) >> sh
}

// ---- constructors with folding ----

func mkNot(a *Term) *Term {
	if a.isConst() {
		return mkBool(a.k == 0)
	}
	if a.op == OpNot {
		return a.a
	}
	return newTerm(OpNot, WBool, a, nil, nil)
}

func mkAnd(a, b *Term) *Term {
	if a.isConst() {
		if a.k == 0 {
			return constFalse
		}
		return b
	}
	if b.isConst() {
		if b.k == 0 {
			return constFalse
		}
		return a
	}
	if a == b {
		return a
	}
	return newTerm(OpAnd, WBool, a, b, nil)
}

func mkOr(a, b *Term) *Term {
	if a.isConst() {
		if a.k == 1 {
			return constTrue
		}
		return b
	}
	if b.isConst() {
		if b.k == 1 {
			return constTrue
		}
		return a
	}
	if a == b {
		return a
	}
	return newTerm(OpOr, WBool, a, b, nil)
}

func mkIte(c, a, b *Term) *Term {
	if c.isConst() {
		if c.k == 1 {
			return a
		}
		return b
	}
	if a == b {
		return a
	}
	if a.w != b.w {
		panic(fmt.Sprintf("ite sort mismatch %d %d", a.w, b.w))
	}
	if a.isConst() && b.isConst() && a.w != WInt && a.k == b.k {
		return a
	}
	if a.w == WBool {
		if a.isConst() && b.isConst() {
			if a.k == 1 {
				return c
			}
			return mkNot(c)
		}
	}
	return newTerm(OpIte, a.w, c, a, b)
}

func constEq(a, b *Term) bool {
	if a.w == WInt {
		return a.big.Cmp(b.big) == 0
	}
	return a.k == b.k
}

func mkEq(a, b *Term) *Term {
	if a == b {
		return constTrue
	}
	if a.w != b.w {
		panic(fmt.Sprintf("eq sort mismatch %d %d (%s vs %s)", a.w, b.w, a, b))
	}
	if a.isConst() && b.isConst() {
		return mkBool(constEq(a, b))
	}
	if a.w == WBool {
		if a.isConst() {
			if a.k == 1 {
				return b
			}
			return mkNot(b)
		}
		if b.isConst() {
			if b.k == 1 {
				return a
			}
			return mkNot(a)
		}
	}
	// zext(x) == const that does not fit -> false; fits -> compare narrow
	if a.isConst() {
		a, b = b, a
	}
	if b.isConst() && a.op == OpZExt && a.w != WInt {
		if b.k > mask(a.a.w) {
			return constFalse
		}
		return mkEq(a.a, mkBV(a.a.w, b.k))
	}
	return newTerm(OpEq, WBool, a, b, nil)
}

func bvBin(op Op, a, b *Term) *Term {
	if a.w != b.w {
		panic(fmt.Sprintf("bv width mismatch op %d: %d vs %d", op, a.w, b.w))
	}
	w := a.w
	if a.isConst() && b.isConst() {
		x, y := a.k, b.k
		var r uint64
		switch op {
		case OpAdd:
			r = x + y
		case OpSub:
			r = x - y
		case OpMul:
			r = x * y
		case OpUDiv:
			if y == 0 {
				r = mask(w)
			} else {
				r = x / y
			}
		case OpURem:
			if y == 0 {
				r = x
			} else {
				r = x % y
			}
		case OpSDiv:
			sx, sy := signExt(x, w), signExt(y, w)
			if sy == 0 {
				if sx < 0 {
					r = 1
				} else {
					r = mask(w)
				}
			} else if sy == -1 {
				r = uint64(-sx)
			} else {
				r = uint64(sx / sy)
			}
		case OpSRem:
			sx, sy := signExt(x, w), signExt(y, w)
			if sy == 0 {
				r = x
			} else if sy == -1 {
				r = 0
			} else {
				r = uint64(sx % sy)
			}
		case OpBAnd:
			r = x & y
		case OpBOr:
			r = x | y
		case OpBXor:
			r = x ^ y
		case OpShl:
			if y >= uint64(w) {
				r = 0
			} else {
				r = x << y
			}
		case OpLShr:
			if y >= uint64(w) {
				r = 0
			} else {
				r = x >> y
			}
		case OpAShr:
			sx := signExt(x, w)
			if y >= uint64(w) {
				y = uint64(w - 1)
			}
			r = uint64(sx >> y)
		}
		return mkBV(w, r)
	}
	// identities
	switch op {
	case OpAdd:
		if a.isConst() && a.k == 0 {
			return b
		}
		if b.isConst() && b.k == 0 {
			return a
		}
	case OpSub:
		if b.isConst() && b.k == 0 {
			return a
		}
		if a == b {
			return mkBV(w, 0)
		}
	case OpMul:
		if a.isConst() {
			if a.k == 0 {
				return a
			}
			if a.k == 1 {
				return b
			}
		}
		if b.isConst() {
			if b.k == 0 {
				return b
			}
			if b.k == 1 {
				return a
			}
		}
	case OpBAnd:
		if a.isConst() {
			if a.k == 0 {
				return a
			}
			if a.k == mask(w) {
				return b
			}
		}
		if b.isConst() {
			if b.k == 0 {
				return b
			}
			if b.k == mask(w) {
				return a
			}
		}
		if a == b {
			return a
		}
	case OpBOr:
		if a.isConst() && a.k == 0 {
			return b
		}
		if b.isConst() && b.k == 0 {
			return a
		}
		if a == b {
			return a
		}
	case OpBXor:
		if a.isConst() && a.k == 0 {
			return b
		}
		if b.isConst() && b.k == 0 {
			return a
		}
		if a == b {
			return mkBV(w, 0)
		}
		// (p ^ k) ^ k = p
		if a.op == OpBXor {
			if a.a == b {
				return a.b
			}
			if a.b == b {
				return a.a
			}
		}
		if b.op == OpBXor {
			if b.a == a {
				return b.b
			}
			if b.b == a {
				return b.a
			}
		}
	case OpShl, OpLShr, OpAShr:
		if b.isConst() && b.k == 0 {
			return a
		}
		if b.isConst() && b.k >= uint64(w) && op != OpAShr {
			return mkBV(w, 0)
		}
		if a.isConst() && a.k == 0 {
			return a
		}
	}
	return newTerm(op, w, a, b, nil)
}

func mkCmp(op Op, a, b *Term) *Term {
	if a.w != b.w {
		panic(fmt.Sprintf("cmp width mismatch %d vs %d", a.w, b.w))
	}
	if a.isConst() && b.isConst() {
		switch op {
		case OpUlt:
			return mkBool(a.k < b.k)
		case OpUle:
			return mkBool(a.k <= b.k)
		case OpSlt:
			return mkBool(signExt(a.k, a.w) < signExt(b.k, b.w))
		case OpSle:
			return mkBool(signExt(a.k, a.w) <= signExt(b.k, b.w))
		}
	}
	if a == b {
		return mkBool(op == OpUle || op == OpSle)
	}
	// unsigned comparisons of zero-extended values against constants
	if op == OpUlt || op == OpUle {
		if a.op == OpZExt && b.isConst() {
			m := mask(a.a.w)
			if b.k > m {
				return constTrue
			}
			return mkCmp(op, a.a, mkBV(a.a.w, b.k))
		}
		if b.op == OpZExt && a.isConst() {
			m := mask(b.a.w)
			if a.k > m {
				return constFalse
			}
			return mkCmp(op, mkBV(b.a.w, a.k), b.a)
		}
		if op == OpUlt && b.isConst() && b.k == 0 {
			return constFalse
		}
		if op == OpUle && a.isConst() && a.k == 0 {
			return constTrue
		}
	}
	if op == OpSlt || op == OpSle {
		// zext values are non-negative: compare as unsigned when both sides are
		// provably non-negative
		if nonNeg(a) && nonNeg(b) {
			if op == OpSlt {
				return mkCmp(OpUlt, a, b)
			}
			return mkCmp(OpUle, a, b)
		}
	}
	return newTerm(op, WBool, a, b, nil)
}

func nonNeg(t *Term) bool {
	if t.isConst() {
		return signExt(t.k, t.w) >= 0
	}
	return t.op == OpZExt && t.w > t.a.w
}

func mkBNot(a *Term) *Term {
	if a.isConst() {
		return mkBV(a.w, ^a.k)
	}
	if a.op == OpBNot {
		return a.a
	}
	return newTerm(OpBNot, a.w, a, nil, nil)
}

func mkNeg(a *Term) *Term {
	if a.isConst() {
		return mkBV(a.w, -a.k)
	}
	return newTerm(OpNeg, a.w, a, nil, nil)
}

func mkZExt(a *Term, w int) *Term {
	if w == a.w {
		return a
	}
	if w < a.w {
		return mkExtract(a, 0, w)
	}
	if a.isConst() {
		return mkBV(w, a.k)
	}
	if a.op == OpZExt {
		return mkZExt(a.a, w)
	}
	return newTerm(OpZExt, w, a, nil, nil)
}

func mkSExt(a *Term, w int) *Term {
	if w == a.w {
		return a
	}
	if w < a.w {
		return mkExtract(a, 0, w)
	}
	if a.isConst() {
		return mkBV(w, uint64(signExt(a.k, a.w)))
	}
	if a.op == OpZExt && a.w > a.a.w {
		return mkZExt(a.a, w)
	}
	return newTerm(OpSExt, w, a, nil, nil)
}

func mkExtract(a *Term, lo, w int) *Term {
	if lo == 0 && w == a.w {
		return a
	}
	if a.isConst() {
		return mkBV(w, a.k>>uint(lo))
	}
	if (a.op == OpZExt || a.op == OpSExt) && lo == 0 {
		if w <= a.a.w {
			return mkExtract(a.a, 0, w)
		}
		if a.op == OpZExt {
			return mkZExt(a.a, w)
		}
		return mkSExt(a.a, w)
	}
	if a.op == OpZExt && lo >= a.a.w {
		return mkBV(w, 0)
	}
	if a.op == OpConcat {
		if lo+w <= a.b.w {
			return mkExtract(a.b, lo, w)
		}
		if lo >= a.b.w {
			return mkExtract(a.a, lo-a.b.w, w)
		}
	}
	// low-bits extraction distributes over bitwise ops and add/sub/mul
	if lo == 0 {
		switch a.op {
		case OpBAnd, OpBOr, OpBXor, OpAdd, OpSub, OpMul:
			return bvBin(a.op, mkExtract(a.a, 0, w), mkExtract(a.b, 0, w))
		}
	}
	// extract of (x >> c) for constant c
	if a.op == OpLShr && a.b.isConst() && int(a.b.k)+lo+w <= a.w {
		return mkExtract(a.a, lo+int(a.b.k), w)
	}
	t := newTerm(OpExtract, w, a, nil, nil)
	t.k = uint64(lo)
	return t
}

func mkConcat(hi, lo *Term) *Term {
	if hi.isConst() && lo.isConst() && hi.w+lo.w <= 64 {
		return mkBV(hi.w+lo.w, hi.k<<uint(lo.w)|lo.k)
	}
	if hi.isConst() && hi.k == 0 {
		return mkZExt(lo, hi.w+lo.w)
	}
	return newTerm(OpConcat, hi.w+lo.w, hi, lo, nil)
}

// ---- Int ----

func intBin(op Op, a, b *Term) *Term {
	if a.w != WInt || b.w != WInt {
		panic("intBin on non-int")
	}
	if a.isConst() && b.isConst() {
		r := new(big.Int)
		switch op {
		case OpIAdd:
			r.Add(a.big, b.big)
		case OpISub:
			r.Sub(a.big, b.big)
		case OpIMul:
			r.Mul(a.big, b.big)
		case OpIDiv:
			if b.big.Sign() == 0 {
				return newTerm(op, WInt, a, b, nil)
			}
			r.Div(a.big, b.big) // Euclidean, matches SMT-LIB div
		case OpIMod:
			if b.big.Sign() == 0 {
				return newTerm(op, WInt, a, b, nil)
			}
			r.Mod(a.big, b.big)
		}
		return mkInt(r)
	}
	return newTerm(op, WInt, a, b, nil)
}

func intCmp(op Op, a, b *Term) *Term {
	if a.isConst() && b.isConst() {
		c := a.big.Cmp(b.big)
		if op == OpILt {
			return mkBool(c < 0)
		}
		return mkBool(c <= 0)
	}
	return newTerm(op, WBool, a, b, nil)
}

func mkINeg(a *Term) *Term {
	if a.isConst() {
		return mkInt(new(big.Int).Neg(a.big))
	}
	return newTerm(OpINeg, WInt, a, nil, nil)
}

func mkIAbs(a *Term) *Term {
	if a.isConst() {
		return mkInt(new(big.Int).Abs(a.big))
	}
	return newTerm(OpIAbs, WInt, a, nil, nil)
}

func mkBV2Int(a *Term) *Term {
	if a.isConst() {
		return mkInt(new(big.Int).SetUint64(a.k))
	}
	return newTerm(OpBV2Int, WInt, a, nil, nil)
}

func mkInt2BV(a *Term, w int) *Term {
	if a.isConst() {
		m := new(big.Int).Lsh(big.NewInt(1), uint(w))
		r := new(big.Int).Mod(a.big, m)
		return mkBV(w, r.Uint64())
	}
	if a.op == OpBV2Int && a.a.w == w {
		return a.a
	}
	return newTerm(OpInt2BV, w, a, nil, nil)
}

// ---- evaluation under a model ----

type Model map[string]*big.Int // var name -> value (bools 0/1)

type evalCtx struct {
	m    Model
	memo map[*Term]evalRes
}

type evalRes struct {
	k   uint64
	big *big.Int
}

func newEval(m Model) *evalCtx { return &evalCtx{m: m, memo: map[*Term]evalRes{}} }

func (e *evalCtx) bv(t *Term) uint64 { return e.eval(t).k }

func (e *evalCtx) eval(t *Term) evalRes {
	if t.op == OpConst {
		return evalRes{k: t.k, big: t.big}
	}
	if r, ok := e.memo[t]; ok {
		return r
	}
	r := e.eval1(t)
	e.memo[t] = r
	return r
}

func (e *evalCtx) eval1(t *Term) evalRes {
	switch t.op {
	case OpVar:
		v, ok := e.m[t.name]
		if !ok {
			if t.w == WInt {
				return evalRes{big: new(big.Int)}
			}
			return evalRes{}
		}
		if t.w == WInt {
			return evalRes{big: v}
		}
		return evalRes{k: v.Uint64() & mask(maxInt(t.w, 1))}
	case OpNot:
		return evalRes{k: 1 - e.eval(t.a).k}
	case OpAnd:
		if e.eval(t.a).k == 0 {
			return evalRes{}
		}
		return e.eval(t.b)
	case OpOr:
		if e.eval(t.a).k == 1 {
			return evalRes{k: 1}
		}
		return e.eval(t.b)
	case OpIte:
		if e.eval(t.a).k == 1 {
			return e.eval(t.b)
		}
		return e.eval(t.c)
	case OpEq:
		x, y := e.eval(t.a), e.eval(t.b)
		if t.a.w == WInt {
			return evalRes{k: b2u(x.big.Cmp(y.big) == 0)}
		}
		return evalRes{k: b2u(x.k == y.k)}
	case OpAdd, OpSub, OpMul, OpUDiv, OpURem, OpSDiv, OpSRem, OpBAnd, OpBOr, OpBXor, OpShl, OpLShr, OpAShr:
		x, y := e.eval(t.a).k, e.eval(t.b).k
		return evalRes{k: bvBin(t.op, mkBV(t.w, x), mkBV(t.w, y)).k}
	case OpBNot:
		return evalRes{k: ^e.eval(t.a).k & mask(t.w)}
	case OpNeg:
		return evalRes{k: -e.eval(t.a).k & mask(t.w)}
	case OpUlt, OpUle, OpSlt, OpSle:
		x, y := e.eval(t.a).k, e.eval(t.b).k
		return evalRes{k: mkCmp(t.op, mkBV(t.a.w, x), mkBV(t.a.w, y)).k}
	case OpZExt:
		return evalRes{k: e.eval(t.a).k}
	case OpSExt:
		return evalRes{k: uint64(signExt(e.eval(t.a).k, t.a.w)) & mask(t.w)}
	case OpExtract:
		return evalRes{k: (e.eval(t.a).k >> uint(t.k)) & mask(t.w)}
	case OpConcat:
		return evalRes{k: (e.eval(t.a).k<<uint(t.b.w) | e.eval(t.b).k) & mask(t.w)}
	case OpIAdd, OpISub, OpIMul, OpIDiv, OpIMod:
		x, y := e.eval(t.a).big, e.eval(t.b).big
		r := new(big.Int)
		switch t.op {
		case OpIAdd:
			r.Add(x, y)
		case OpISub:
			r.Sub(x, y)
		case OpIMul:
			r.Mul(x, y)
		case OpIDiv:
			if y.Sign() != 0 {
				r.Div(x, y)
			}
		case OpIMod:
			if y.Sign() != 0 {
				r.Mod(x, y)
			} else {
				r.Set(x)
			}
		}
		return evalRes{big: r}
	case OpINeg:
		return evalRes{big: new(big.Int).Neg(e.eval(t.a).big)}
	case OpIAbs:
		return evalRes{big: new(big.Int).Abs(e.eval(t.a).big)}
	case OpILt:
		return evalRes{k: b2u(e.eval(t.a).big.Cmp(e.eval(t.b).big) < 0)}
	case OpILe:
		return evalRes{k: b2u(e.eval(t.a).big.Cmp(e.eval(t.b).big) <= 0)}
	case OpBV2Int:
		return evalRes{big: new(big.Int).SetUint64(e.eval(t.a).k)}
	case OpInt2BV:
		m := new(big.Int).Lsh(big.NewInt(1), uint(t.w))
		r := new(big.Int).Mod(e.eval(t.a).big, m)
		return evalRes{k: r.Uint64()}
	}
	panic(fmt.Sprintf("eval: unknown op %d", t.op))
}

func b2u(b bool) uint64 {
	if b {
		return 1
	}
	return 0
}

func maxInt(a, b int) int {
	if a > b {
		return a
	}
	return b
}

// ---- SMT-LIB printing ----

func sortName(w int) string {
	switch w {
	case WBool:
		return "Bool"
	case WInt:
		return "Int"
	}
	return fmt.Sprintf("(_ BitVec %d)", w)
}

func constSMT(t *Term) string {
	switch t.w {
	case WBool:
		if t.k == 1 {
			return "true"
		}
		return "false"
	case WInt:
		if t.big.Sign() < 0 {
			return "(- " + new(big.Int).Neg(t.big).String() + ")"
		}
		return t.big.String()
	}
	if t.w%4 == 0 {
		return fmt.Sprintf("#x%0*x", t.w/4, t.k)
	}
	return fmt.Sprintf("#b%0*b", t.w, t.k)
}

var opSMT = map[Op]string{
	OpNot: "not", OpAnd: "and", OpOr: "or", OpIte: "ite", OpEq: "=",
	OpAdd: "bvadd", OpSub: "bvsub", OpMul: "bvmul", OpUDiv: "bvudiv", OpURem: "bvurem",
	OpSDiv: "bvsdiv", OpSRem: "bvsrem", OpBAnd: "bvand", OpBOr: "bvor", OpBXor: "bvxor",
	OpShl: "bvshl", OpLShr: "bvlshr", OpAShr: "bvashr", OpBNot: "bvnot", OpNeg: "bvneg",
	OpUlt: "bvult", OpUle: "bvule", OpSlt: "bvslt", OpSle: "bvsle", OpConcat: "concat",
	OpIAdd: "+", OpISub: "-", OpIMul: "*", OpINeg: "-", OpILt: "<", OpILe: "<=",
	OpIDiv: "div", OpIMod: "mod", OpIAbs: "abs",
}

// printer emits definitions for shared subterms into a solver session.
type printer struct {
	defined map[*Term]string // term -> name usable in current scope
	scopes  [][]*Term
	out     *strings.Builder
	usesInt bool
}

func newPrinter() *printer {
	return &printer{defined: map[*Term]string{}, scopes: [][]*Term{nil}, out: &strings.Builder{}}
}

func (p *printer) push() { p.scopes = append(p.scopes, nil) }
func (p *printer) pop() {
	top := p.scopes[len(p.scopes)-1]
	for _, t := range top {
		delete(p.defined, t)
	}
	p.scopes = p.scopes[:len(p.scopes)-1]
}

func (p *printer) note(t *Term, name string) {
	p.defined[t] = name
	p.scopes[len(p.scopes)-1] = append(p.scopes[len(p.scopes)-1], t)
}

// ref returns an expression string for t, emitting declarations/definitions as needed.
func (p *printer) ref(t *Term) string {
	if t.op == OpConst {
		return constSMT(t)
	}
	if n, ok := p.defined[t]; ok {
		return n
	}
	if t.op == OpVar {
		n := "|" + t.name + "|"
		fmt.Fprintf(p.out, "(declare-const %s %s)\n", n, sortName(t.w))
		p.note(t, n)
		return n
	}
	var body string
	switch t.op {
	case OpZExt:
		body = fmt.Sprintf("((_ zero_extend %d) %s)", t.w-t.a.w, p.ref(t.a))
	case OpSExt:
		body = fmt.Sprintf("((_ sign_extend %d) %s)", t.w-t.a.w, p.ref(t.a))
	case OpExtract:
		body = fmt.Sprintf("((_ extract %d %d) %s)", int(t.k)+t.w-1, t.k, p.ref(t.a))
	case OpBV2Int:
		body = fmt.Sprintf("(bv2nat %s)", p.ref(t.a))
	case OpInt2BV:
		body = fmt.Sprintf("((_ int2bv %d) %s)", t.w, p.ref(t.a))
	default:
		name, ok := opSMT[t.op]
		if !ok {
			panic(fmt.Sprintf("print: op %d", t.op))
		}
		var sb strings.Builder
		sb.WriteString("(")
		sb.WriteString(name)
		for _, x := range []*Term{t.a, t.b, t.c} {
			if x != nil {
				sb.WriteString(" ")
				sb.WriteString(p.ref(x))
			}
		}
		sb.WriteString(")")
		body = sb.String()
	}
	n := fmt.Sprintf("t%d", t.id)
	fmt.Fprintf(p.out, "(define-fun %s () %s %s)\n", n, sortName(t.w), body)
	p.note(t, n)
	return n
}

func (t *Term) String() string {
	return t.str(0)
}

func (t *Term) str(d int) string {
	if t.op == OpConst {
		return constSMT(t)
	}
	if t.op == OpVar {
		return t.name
	}
	if d > 6 {
		return "…"
	}
	s := "(" + opSMT[t.op]
	if s == "(" {
		s = fmt.Sprintf("(op%d", t.op)
	}
	if t.op == OpExtract {
		s += fmt.Sprintf("[%d+%d]", t.k, t.w)
	}
	for _, x := range []*Term{t.a, t.b, t.c} {
		if x != nil {
			s += " " + x.str(d+1)
		}
	}
	return s + ")"
}

// collectVars appends the variables under t.
func collectVars(t *Term, seen map[*Term]bool, out *[]*Term) {
	if t == nil || seen[t] {
		return
	}
	seen[t] = true
	if t.op == OpVar {
		*out = append(*out, t)
		return
	}
	collectVars(t.a, seen, out)
	collectVars(t.b, seen, out)
	collectVars(t.c, seen, out)
}

var _ = bits.Len
