package main

// Exact models of modular arithmetic over small concrete moduli (|m| <= smallMod):
// the result is an if-then-else table over the residue, so the solver reasons with
// the real function instead of an uninterpreted one and its counterexamples replay
// natively. Anything outside these shapes keeps the uninterpreted model.

import "math/big"

const smallMod = 512

// intTable is f(idx) for idx in 0..n-1 as nested ite (last entry is the default).
func intTable(idx *Term, n int, f func(i int) *big.Int) *Term {
	t := mkInt(f(n - 1))
	for i := n - 2; i >= 0; i-- {
		t = mkIte(mkEq(idx, mkIntI(int64(i))), mkInt(f(i)), t)
	}
	return t
}

func smallAbs(m *Term) (int, bool) {
	if !m.isConst() {
		return 0, false
	}
	a := new(big.Int).Abs(m.big)
	if a.Sign() == 0 || a.Cmp(big.NewInt(smallMod)) > 0 {
		return 0, false
	}
	return int(a.Int64()), true
}

// modBound recognises e = (t mod K) with a small positive constant K.
func modBound(e *Term) (int, bool) {
	if e.op == OpIMod && e.b != nil && e.b.isConst() && e.b.big.Sign() > 0 && e.b.big.Cmp(big.NewInt(smallMod)) <= 0 {
		return int(e.b.big.Int64()), true
	}
	return 0, false
}

// smallExp returns b^e mod |m| as a table when the shapes allow, else nil.
func smallExp(b, e, m *Term) *Term {
	n, ok := smallAbs(m)
	if !ok {
		return nil
	}
	mm := big.NewInt(int64(n))
	switch {
	case e.isConst() && e.big.Sign() >= 0 && e.big.BitLen() <= 64:
		idx := intBin(OpIMod, b, mkInt(mm))
		return intTable(idx, n, func(i int) *big.Int { return new(big.Int).Exp(big.NewInt(int64(i)), e.big, mm) })
	case b.isConst():
		if k, ok := modBound(e); ok {
			return intTable(e, k, func(i int) *big.Int { return new(big.Int).Exp(b.big, big.NewInt(int64(i)), mm) })
		}
	}
	return nil
}

// smallModInverse: table over g mod |n| plus the invertibility condition.
func smallModInverse(g, nT *Term) (val, invertible *Term, ok bool) {
	n, ok := smallAbs(nT)
	if !ok {
		return nil, nil, false
	}
	nn := big.NewInt(int64(n))
	idx := intBin(OpIMod, g, mkInt(nn))
	invertible = constFalse
	for i := 0; i < n; i++ {
		if new(big.Int).ModInverse(big.NewInt(int64(i)), nn) != nil {
			invertible = mkOr(invertible, mkEq(idx, mkIntI(int64(i))))
		}
	}
	val = intTable(idx, n, func(i int) *big.Int {
		if r := new(big.Int).ModInverse(big.NewInt(int64(i)), nn); r != nil {
			return r
		}
		return big.NewInt(0)
	})
	return val, invertible, true
}

// constTable reports whether t is an ite tree with constant Int leaves (at most smallMod of them).
func constTable(t *Term, budget *int) bool {
	if t.isConst() {
		*budget--
		return *budget >= 0
	}
	if t.op != OpIte || t.w != WInt {
		return false
	}
	return constTable(t.b, budget) && constTable(t.c, budget)
}

// mulOverTable distributes p * table so every product has a constant factor.
func mulOverTable(p, table *Term) *Term {
	if table.isConst() {
		return intBin(OpIMul, p, table)
	}
	return mkIte(table.a, mulOverTable(p, table.b), mulOverTable(p, table.c))
}

// smallMul returns p*q as a linear term when one factor is a constant table, else nil.
func smallMul(p, q *Term) *Term {
	b := smallMod
	if constTable(q, &b) {
		return mulOverTable(p, q)
	}
	b = smallMod
	if constTable(p, &b) {
		return mulOverTable(q, p)
	}
	return nil
}
