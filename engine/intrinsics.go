package main

// Intercepted functions: the harness runtime (verifrt), body-less runtime/asm
// functions, synchronisation fast paths and formatting cuts.

import (
	"fmt"
	"go/types"
	"strings"

	"golang.org/x/tools/go/ssa"
)

type intrinsic func(x *Exec, caller *frame, fn *ssa.Function, args []Value) Value

const vrPkg = "github.com/zmap/zcrypto/internal/verifrt."

var intrinsics = map[string]intrinsic{}
var initCuts = map[string]intrinsic{}

func strArg(v Value) string {
	s, ok := v.(*Str).concrete()
	if !ok {
		panic("expected concrete string argument")
	}
	return s
}

func sliceTerms(s Slice) []*Term {
	out := make([]*Term, s.len)
	for i := 0; i < s.len; i++ {
		out[i] = termOf(s.get(i))
	}
	return out
}

func byteSliceOf(ts []*Term) Slice {
	a := &Agg{e: make([]Value, len(ts))}
	for i, t := range ts {
		a.e[i] = t
	}
	return Slice{o: newObj(a), len: len(ts), cap: len(ts)}
}

func (x *Exec) newError(msg *Str) Value {
	pkg := x.prog.ImportedPackage("errors")
	if pkg == nil {
		panic(unsupported{"errors package not loaded"})
	}
	named := pkg.Type("errorString").Type()
	o := newObj(&Agg{e: []Value{msg}})
	return Iface{t: types.NewPointer(named), v: Ptr{o: o}}
}

func allConcrete(args []Value) bool {
	for _, a := range args {
		switch v := a.(type) {
		case *Term:
			if !v.isConst() {
				return false
			}
		case *Str:
			if _, ok := v.concrete(); !ok {
				return false
			}
		default:
			return false
		}
	}
	return true
}

func init() {


	I := intrinsics

	// ---------- verifrt ----------
	mkIn := func(w int) intrinsic {
		return func(x *Exec, c *frame, fn *ssa.Function, a []Value) Value {
			return x.ps.input(strArg(a[0]), w)
		}
	}
	I[vrPkg+"U8"] = mkIn(8)
	I[vrPkg+"U16"] = mkIn(16)
	I[vrPkg+"U32"] = mkIn(32)
	I[vrPkg+"U64"] = mkIn(64)
	I[vrPkg+"Bool"] = func(x *Exec, c *frame, fn *ssa.Function, a []Value) Value {
		t := x.ps.input(strArg(a[0]), 64)
		return mkEq(mkExtract(t, 0, 1), mkBV(1, 1))
	}
	I[vrPkg+"Int"] = func(x *Exec, c *frame, fn *ssa.Function, a []Value) Value {
		t := x.ps.input(strArg(a[0]), 64)
		lo, hi := termOf(a[1]), termOf(a[2])
		x.ps.assume(mkAnd(mkCmp(OpSle, lo, t), mkCmp(OpSle, t, hi)))
		return t
	}
	I[vrPkg+"Bytes"] = func(x *Exec, c *frame, fn *ssa.Function, a []Value) Value {
		label := strArg(a[0])
		n := int(x.ps.concretize(termOf(a[1]), "Bytes len"))
		ts := make([]*Term, n)
		for i := range ts {
			ts[i] = x.ps.input(label, 8)
		}
		return byteSliceOf(ts)
	}
	I[vrPkg+"String"] = func(x *Exec, c *frame, fn *ssa.Function, a []Value) Value {
		label := strArg(a[0])
		n := int(x.ps.concretize(termOf(a[1]), "String len"))
		ts := make([]*Term, n)
		for i := range ts {
			ts[i] = x.ps.input(label, 8)
		}
		return &Str{b: ts}
	}
	I[vrPkg+"Assume"] = func(x *Exec, c *frame, fn *ssa.Function, a []Value) Value {
		x.ps.assume(termOf(a[0]))
		return nil
	}
	I[vrPkg+"Assert"] = func(x *Exec, c *frame, fn *ssa.Function, a []Value) Value {
		x.assertCheck(termOf(a[0]), strArg(a[1]))
		return nil
	}
	I[vrPkg+"Cover"] = func(x *Exec, c *frame, fn *ssa.Function, a []Value) Value {
		x.ps.events = append(x.ps.events, event{Kind: "cover", Label: strArg(a[0])})
		return nil
	}
	obsScalar := func(x *Exec, c *frame, fn *ssa.Function, a []Value) Value {
		t := termOf(a[1])
		if t.w == WBool {
			t = mkIte(t, mkBV(64, 1), mkBV(64, 0))
		}
		x.ps.events = append(x.ps.events, event{Kind: "obs", Label: strArg(a[0]), term: t})
		return nil
	}
	I[vrPkg+"ObserveU64"] = obsScalar
	I[vrPkg+"ObserveInt"] = obsScalar
	I[vrPkg+"ObserveBool"] = obsScalar
	I[vrPkg+"ObserveBytes"] = func(x *Exec, c *frame, fn *ssa.Function, a []Value) Value {
		x.ps.events = append(x.ps.events, event{Kind: "obs", Label: strArg(a[0]), bytes: sliceTerms(a[1].(Slice)), isBytes: true})
		return nil
	}
	I[vrPkg+"ObserveString"] = func(x *Exec, c *frame, fn *ssa.Function, a []Value) Value {
		s := a[1].(*Str)
		s.check()
		x.ps.events = append(x.ps.events, event{Kind: "obs", Label: strArg(a[0]), bytes: s.b, isBytes: true})
		return nil
	}
	I[vrPkg+"UF"] = func(x *Exec, c *frame, fn *ssa.Function, a []Value) Value {
		name := strArg(a[0])
		n := int(x.ps.concretize(termOf(a[1]), "UF outLen"))
		var args [][]*Term
		vs := a[2].(Slice)
		for i := 0; i < vs.len; i++ {
			args = append(args, sliceTerms(vs.get(i).(Slice)))
		}
		out := x.uf(name, n*8, args)
		return byteSliceOf(out)
	}
	I[vrPkg+"UFBool"] = func(x *Exec, c *frame, fn *ssa.Function, a []Value) Value {
		name := strArg(a[0])
		var args [][]*Term
		vs := a[1].(Slice)
		for i := 0; i < vs.len; i++ {
			args = append(args, sliceTerms(vs.get(i).(Slice)))
		}
		out := x.uf(name, 1, args)
		return mkEq(mkExtract(out[0], 0, 1), mkBV(1, 1))
	}
	I[vrPkg+"Stub"] = func(x *Exec, c *frame, fn *ssa.Function, a []Value) Value {
		name := strArg(a[0])
		ifc := a[1].(Iface)
		x.stubs[name] = ifc.v
		x.ps.usedStub = true
		return nil
	}
	I[vrPkg+"KnownFinding"] = func(x *Exec, c *frame, fn *ssa.Function, a []Value) Value {
		id := strArg(a[0])
		cond := termOf(a[1])
		if !x.cfg.Known[id] {
			return cond
		}
		if x.ps.decide(cond, "known:"+id) {
			if x.ps.known == "" {
				x.ps.known = id
			}
			x.ps.events = append(x.ps.events, event{Kind: "known", Label: id})
			return constTrue
		}
		return constFalse
	}
	I[vrPkg+"MayPanic"] = func(x *Exec, c *frame, fn *ssa.Function, a []Value) (res Value) {
		f := a[0]
		res = constFalse
		func() {
			depth := x.depth
			defer func() {
				if r := recover(); r != nil {
					if _, ok := r.(*goPanic); ok {
						x.depth = depth
						res = constTrue
						return
					}
					panic(r)
				}
			}()
			x.callValue(c, f, nil)
		}()
		return res
	}
	I[vrPkg+"MapOrderNondet"] = func(x *Exec, c *frame, fn *ssa.Function, a []Value) Value {
		x.mapNondet = true
		return nil
	}
	I[vrPkg+"Tier"] = func(x *Exec, c *frame, fn *ssa.Function, a []Value) Value {
		return mkBV(64, uint64(x.cfg.Tier))
	}

	// ---------- bytealg ----------
	I["internal/bytealg.IndexByte"] = func(x *Exec, c *frame, fn *ssa.Function, a []Value) Value {
		return indexByte(sliceTerms(a[0].(Slice)), termOf(a[1]))
	}
	I["internal/bytealg.IndexByteString"] = func(x *Exec, c *frame, fn *ssa.Function, a []Value) Value {
		s := a[0].(*Str)
		s.check()
		return indexByte(s.b, termOf(a[1]))
	}
	I["internal/bytealg.LastIndexByte"] = func(x *Exec, c *frame, fn *ssa.Function, a []Value) Value {
		return lastIndexByte(sliceTerms(a[0].(Slice)), termOf(a[1]))
	}
	I["internal/bytealg.LastIndexByteString"] = func(x *Exec, c *frame, fn *ssa.Function, a []Value) Value {
		s := a[0].(*Str)
		s.check()
		return lastIndexByte(s.b, termOf(a[1]))
	}
	I["internal/bytealg.Count"] = func(x *Exec, c *frame, fn *ssa.Function, a []Value) Value {
		return countByte(sliceTerms(a[0].(Slice)), termOf(a[1]))
	}
	I["internal/bytealg.CountString"] = func(x *Exec, c *frame, fn *ssa.Function, a []Value) Value {
		s := a[0].(*Str)
		s.check()
		return countByte(s.b, termOf(a[1]))
	}
	I["internal/bytealg.Equal"] = func(x *Exec, c *frame, fn *ssa.Function, a []Value) Value {
		return bytesEq(sliceTerms(a[0].(Slice)), sliceTerms(a[1].(Slice)))
	}
	I["bytes.Equal"] = I["internal/bytealg.Equal"]
	I["internal/bytealg.Compare"] = func(x *Exec, c *frame, fn *ssa.Function, a []Value) Value {
		return bytesCompare(sliceTerms(a[0].(Slice)), sliceTerms(a[1].(Slice)))
	}
	I["bytes.Compare"] = I["internal/bytealg.Compare"]
	I["internal/bytealg.CompareString"] = func(x *Exec, c *frame, fn *ssa.Function, a []Value) Value {
		return bytesCompare(a[0].(*Str).b, a[1].(*Str).b)
	}
	I["strings.Compare"] = I["internal/bytealg.CompareString"]
	I["internal/bytealg.Index"] = func(x *Exec, c *frame, fn *ssa.Function, a []Value) Value {
		return x.indexSub(sliceTerms(a[0].(Slice)), sliceTerms(a[1].(Slice)))
	}
	I["internal/bytealg.IndexString"] = func(x *Exec, c *frame, fn *ssa.Function, a []Value) Value {
		return x.indexSub(a[0].(*Str).b, a[1].(*Str).b)
	}
	I["strings.Index"] = func(x *Exec, c *frame, fn *ssa.Function, a []Value) Value {
		a[0].(*Str).check()
		a[1].(*Str).check()
		return x.indexSub(a[0].(*Str).b, a[1].(*Str).b)
	}
	I["bytes.Index"] = I["internal/bytealg.Index"]
	I["strings.IndexByte"] = I["internal/bytealg.IndexByteString"]
	I["bytes.IndexByte"] = I["internal/bytealg.IndexByte"]
	I["internal/bytealg.MakeNoZero"] = func(x *Exec, c *frame, fn *ssa.Function, a []Value) Value {
		n := x.allocSize(termOf(a[0]), "MakeNoZero")
		return newSlice(func() Value { return mkBV(8, 0) }, n, n)
	}
	I["internal/stringslite.Index"] = I["strings.Index"]
	I["internal/stringslite.IndexByte"] = I["internal/bytealg.IndexByteString"]

	// ---------- sync ----------
	nop := func(x *Exec, c *frame, fn *ssa.Function, a []Value) Value { return nil }
	for _, n := range []string{"(*sync.Mutex).Lock", "(*sync.Mutex).Unlock", "(*sync.RWMutex).Lock", "(*sync.RWMutex).Unlock",
		"(*sync.RWMutex).RLock", "(*sync.RWMutex).RUnlock", "(*sync.WaitGroup).Add", "(*sync.WaitGroup).Done", "(*sync.WaitGroup).Wait",
		"runtime.KeepAlive", "runtime.SetFinalizer", "runtime.GC", "runtime.Gosched", "(*sync.Pool).Put",
		"internal/race.Acquire", "internal/race.Release", "internal/race.ReleaseMerge", "internal/race.Disable", "internal/race.Enable",
		"internal/race.Read", "internal/race.Write", "internal/race.ReadRange", "internal/race.WriteRange",
		"(*sync.noCopy).Lock", "(*sync.noCopy).Unlock", "crypto/internal/fips140deps/godebug.Value",
		"crypto/internal/boring.Unreachable", "crypto/internal/boring/sig.StandardCrypto", "crypto/internal/boring/sig.BoringCrypto",
		"crypto/internal/fips140only.Enforced",
	} {
		I[n] = nop
	}
	I["(*sync.Mutex).TryLock"] = func(x *Exec, c *frame, fn *ssa.Function, a []Value) Value { return constTrue }
	I["crypto/internal/fips140only.Enforced"] = func(x *Exec, c *frame, fn *ssa.Function, a []Value) Value { return constFalse }
	I["crypto/internal/fips140.Enabled"] = I["crypto/internal/fips140only.Enforced"]
	I["(*sync.Once).Do"] = func(x *Exec, c *frame, fn *ssa.Function, a []Value) Value {
		p := a[0].(Ptr)
		// Once{done atomic.Uint32/Bool..., m Mutex}: keep our own flag in a side table
		if x.onceDone == nil {
			x.onceDone = map[*Obj]map[string]bool{}
		}
		key := fmt.Sprint(p.path)
		if x.onceDone[p.o] == nil {
			x.onceDone[p.o] = map[string]bool{}
		}
		if x.onceDone[p.o][key] {
			return nil
		}
		x.onceDone[p.o][key] = true
		x.callValue(c, a[1], nil)
		return nil
	}
	I["(*sync.Pool).Get"] = func(x *Exec, c *frame, fn *ssa.Function, a []Value) Value {
		p := a[0].(Ptr)
		// field New is the last field of sync.Pool
		pool := x.peek(p).(*Agg)
		newf := pool.e[len(pool.e)-1]
		if cl, ok := newf.(*Closure); ok && cl != nil {
			return x.callValue(c, cl, nil)
		}
		return Iface{}
	}

	// ---------- sync/atomic ----------
	for _, ty := range []string{"Int32", "Int64", "Uint32", "Uint64", "Uintptr", "Pointer"} {
		I["sync/atomic.Load"+ty] = func(x *Exec, c *frame, fn *ssa.Function, a []Value) Value { return x.ptrOf(a[0]).load() }
		I["sync/atomic.Store"+ty] = func(x *Exec, c *frame, fn *ssa.Function, a []Value) Value {
			x.ptrOf(a[0]).store(a[1])
			return nil
		}
		I["sync/atomic.Swap"+ty] = func(x *Exec, c *frame, fn *ssa.Function, a []Value) Value {
			p := x.ptrOf(a[0])
			old := p.load()
			p.store(a[1])
			return old
		}
		I["sync/atomic.CompareAndSwap"+ty] = func(x *Exec, c *frame, fn *ssa.Function, a []Value) Value {
			p := x.ptrOf(a[0])
			old := p.load()
			eq := x.valEq(old, a[1])
			if x.ps.decide(eq, "cas") {
				p.store(a[2])
				return constTrue
			}
			return constFalse
		}
		if ty != "Pointer" {
			I["sync/atomic.Add"+ty] = func(x *Exec, c *frame, fn *ssa.Function, a []Value) Value {
				p := x.ptrOf(a[0])
				nv := bvBin(OpAdd, termOf(p.load()), termOf(a[1]))
				p.store(nv)
				return nv
			}
			I["sync/atomic.And"+ty] = func(x *Exec, c *frame, fn *ssa.Function, a []Value) Value {
				p := x.ptrOf(a[0])
				old := termOf(p.load())
				p.store(bvBin(OpBAnd, old, termOf(a[1])))
				return old
			}
			I["sync/atomic.Or"+ty] = func(x *Exec, c *frame, fn *ssa.Function, a []Value) Value {
				p := x.ptrOf(a[0])
				old := termOf(p.load())
				p.store(bvBin(OpBOr, old, termOf(a[1])))
				return old
			}
		}
	}
	I["internal/abi.NoEscape"] = func(x *Exec, c *frame, fn *ssa.Function, a []Value) Value { return a[0] }
	I["internal/abi.Escape"] = func(x *Exec, c *frame, fn *ssa.Function, a []Value) Value { return a[0] }

	// ---------- fmt / log cuts ----------
	I["fmt.Errorf"] = func(x *Exec, c *frame, fn *ssa.Function, a []Value) Value {
		return x.newError(&Str{opaque: "fmt.Errorf"})
	}
	opq := func(name string) intrinsic {
		return func(x *Exec, c *frame, fn *ssa.Function, a []Value) Value { return &Str{opaque: name} }
	}
	for _, n := range []string{"fmt.Sprintf", "fmt.Sprint", "fmt.Sprintln"} {
		I[n] = opq(n)
	}
	for _, n := range []string{"fmt.Printf", "fmt.Println", "fmt.Print", "fmt.Fprintf", "fmt.Fprintln", "fmt.Fprint"} {
		I[n] = func(x *Exec, c *frame, fn *ssa.Function, a []Value) Value {
			return Tuple{mkBV(64, 0), Iface{}}
		}
	}
	for _, n := range []string{"log.Printf", "log.Println", "log.Print"} {
		I[n] = nop
	}
	I["errors.Is"] = func(x *Exec, c *frame, fn *ssa.Function, a []Value) Value {
		return x.errorsIs(c, a[0].(Iface), a[1].(Iface))
	}
	I["os.Getenv"] = func(x *Exec, c *frame, fn *ssa.Function, a []Value) Value { return &Str{} }
	I["internal/godebug.New"] = func(x *Exec, c *frame, fn *ssa.Function, a []Value) Value {
		o := newObj(zeroValue(fn.Signature.Results().At(0).Type().(*types.Pointer).Elem()))
		return Ptr{o: o}
	}
	I["(*internal/godebug.Setting).Value"] = func(x *Exec, c *frame, fn *ssa.Function, a []Value) Value { return &Str{} }
	I["(*internal/godebug.Setting).IncNonDefault"] = nop
	I["(*internal/godebug.Setting).Name"] = func(x *Exec, c *frame, fn *ssa.Function, a []Value) Value { return &Str{} }

	// math/bits
	I["math/bits.Len64"] = func(x *Exec, c *frame, fn *ssa.Function, a []Value) Value { return bitsLen(termOf(a[0]), 64) }
	I["math/bits.Len32"] = func(x *Exec, c *frame, fn *ssa.Function, a []Value) Value { return bitsLen(mkZExt(termOf(a[0]), 64), 64) }
	I["math/bits.Len16"] = I["math/bits.Len32"]
	I["math/bits.Len8"] = I["math/bits.Len32"]
	I["math/bits.Len"] = I["math/bits.Len64"]

	// time
	I["time.Now"] = func(x *Exec, c *frame, fn *ssa.Function, a []Value) Value {
		// arbitrary instant without monotonic reading: time.Unix(s, 0)
		s := x.ps.input("time.Now", 64)
		// keep within a sane range so that wall encoding does not overflow: |s| < 2^40
		x.ps.assume(mkAnd(mkCmp(OpSle, mkBV(64, 0), s), mkCmp(OpSlt, s, mkBV(64, 1<<40))))
		unix := x.findFunc("time", "Unix")
		return x.callFunction(unix, []Value{s, mkBV(64, 0)}, nil, c)
	}
	I["time.now"] = func(x *Exec, c *frame, fn *ssa.Function, a []Value) Value {
		panic(unsupported{"time.now"})
	}

	// init-time cuts (package initialisers only)
	initCuts["regexp.MustCompile"] = func(x *Exec, c *frame, fn *ssa.Function, a []Value) Value { return Opaque{"regexp"} }
	initCuts["regexp.MustCompilePOSIX"] = initCuts["regexp.MustCompile"]
}

func (x *Exec) findFunc(pkgPath, name string) *ssa.Function {
	pkg := x.prog.ImportedPackage(pkgPath)
	if pkg == nil {
		panic(unsupported{"package not loaded: " + pkgPath})
	}
	f := pkg.Func(name)
	if f == nil {
		panic(unsupported{"function not found: " + pkgPath + "." + name})
	}
	return f
}

func bitsLen(t *Term, w int) *Term {
	// number of bits needed: ite chain from the top
	res := mkBV(64, 0)
	for i := 0; i < w; i++ {
		bit := mkEq(mkExtract(t, i, 1), mkBV(1, 1))
		res = mkIte(bit, mkBV(64, uint64(i+1)), res)
	}
	return res
}

func indexByte(b []*Term, c *Term) *Term {
	res := mkBV(64, ^uint64(0))
	for i := len(b) - 1; i >= 0; i-- {
		res = mkIte(mkEq(b[i], c), mkBV(64, uint64(i)), res)
	}
	return res
}

func lastIndexByte(b []*Term, c *Term) *Term {
	res := mkBV(64, ^uint64(0))
	for i := 0; i < len(b); i++ {
		res = mkIte(mkEq(b[i], c), mkBV(64, uint64(i)), res)
	}
	return res
}

func countByte(b []*Term, c *Term) *Term {
	res := mkBV(64, 0)
	for i := range b {
		res = bvBin(OpAdd, res, mkIte(mkEq(b[i], c), mkBV(64, 1), mkBV(64, 0)))
	}
	return res
}

func bytesEq(a, b []*Term) *Term {
	if len(a) != len(b) {
		return constFalse
	}
	r := constTrue
	for i := range a {
		r = mkAnd(r, mkEq(a[i], b[i]))
		if r.isFalse() {
			return r
		}
	}
	return r
}

func bytesCompare(a, b []*Term) *Term {
	n := len(a)
	if len(b) < n {
		n = len(b)
	}
	var res *Term
	switch {
	case len(a) < len(b):
		res = mkBV(64, ^uint64(0))
	case len(a) > len(b):
		res = mkBV(64, 1)
	default:
		res = mkBV(64, 0)
	}
	for i := n - 1; i >= 0; i-- {
		res = mkIte(mkEq(a[i], b[i]), res, mkIte(mkCmp(OpUlt, a[i], b[i]), mkBV(64, ^uint64(0)), mkBV(64, 1)))
	}
	return res
}

func (x *Exec) indexSub(s, sep []*Term) *Term {
	if len(sep) == 0 {
		return mkBV(64, 0)
	}
	res := mkBV(64, ^uint64(0))
	for i := len(s) - len(sep); i >= 0; i-- {
		res = mkIte(bytesEq(s[i:i+len(sep)], sep), mkBV(64, uint64(i)), res)
	}
	return res
}

func (x *Exec) errorsIs(c *frame, err, target Iface) Value {
	for depth := 0; depth < 10; depth++ {
		if err.t == nil {
			return mkBool(target.t == nil)
		}
		if target.t != nil && types.Identical(err.t, target.t) && types.Comparable(err.t) {
			eq := x.valEq(err.v, target.v)
			if x.ps.decide(eq, "errors.Is") {
				return constTrue
			}
		}
		// Unwrap() error
		var pkg *types.Package
		un := x.prog.LookupMethod(err.t, pkg, "Unwrap")
		if un == nil || un.Signature.Results().Len() != 1 {
			return constFalse
		}
		if _, ok := un.Signature.Results().At(0).Type().Underlying().(*types.Interface); !ok {
			return constFalse
		}
		r := x.callFunction(un, []Value{err.v}, nil, c)
		err = r.(Iface)
	}
	return constFalse
}

// uf applies an uninterpreted function (Ackermannised).
func (x *Exec) uf(name string, outBits int, args [][]*Term) []*Term {
	ps := x.ps
	var out []*Term
	// syntactically identical application: reuse the outputs (and mirror them on
	// the tape, because the native UF reads its outputs for every call)
	for _, prev := range x.ufApps[name] {
		if len(prev.args) != len(args) || (outBits == 1) != (len(prev.out) == 1 && prev.out[0].w == 64) {
			continue
		}
		if outBits != 1 && len(prev.out) != outBits/8 {
			continue
		}
		same := true
		for i := range args {
			if len(args[i]) != len(prev.args[i]) {
				same = false
				break
			}
			for j := range args[i] {
				a, b := args[i][j], prev.args[i][j]
				if a != b && !(a.isConst() && b.isConst() && a.k == b.k) {
					same = false
					break
				}
			}
			if !same {
				break
			}
		}
		if same {
			for _, o := range prev.out {
				ps.inputs = append(ps.inputs, inputRec{label: "uf:" + name, t: o})
			}
			return prev.out
		}
	}
	if outBits == 1 {
		out = []*Term{ps.input("uf:"+name, 64)}
	} else {
		for i := 0; i < outBits/8; i++ {
			out = append(out, ps.input("uf:"+name, 8))
		}
	}
	app := &ufApp{args: args, out: out}
	for _, prev := range x.ufApps[name] {
		if len(prev.args) != len(args) || len(prev.out) != len(out) {
			continue
		}
		same := true
		for i := range args {
			if len(args[i]) != len(prev.args[i]) {
				same = false
				break
			}
		}
		if !same {
			continue
		}
		eqArgs := constTrue
		for i := range args {
			eqArgs = mkAnd(eqArgs, bytesEq(args[i], prev.args[i]))
		}
		if eqArgs.isFalse() {
			continue
		}
		eqOut := constTrue
		for i := range out {
			if outBits == 1 {
				eqOut = mkAnd(eqOut, mkEq(mkExtract(out[i], 0, 1), mkExtract(prev.out[i], 0, 1)))
			} else {
				eqOut = mkAnd(eqOut, mkEq(out[i], prev.out[i]))
			}
		}
		ps.solver.Assert(mkOr(mkNot(eqArgs), eqOut))
		// keep the witness consistent
		if ps.evalBool(eqArgs) {
			for i := range out {
				if _, have := ps.witness[out[i].name]; !have {
					ps.witness[out[i].name] = ps.ev.eval(prev.out[i]).bigOf(prev.out[i].w)
				}
			}
		}
	}
	x.ufApps[name] = append(x.ufApps[name], app)
	return out
}

func (r evalRes) bigOf(w int) *bigInt {
	if w == WInt {
		return r.big
	}
	return newBigU(r.k)
}

var _ = strings.HasPrefix

func init() {
	// sort.Slice / sort.SliceStable: insertion sort driven by the real less closure
	sortSlice := func(x *Exec, c *frame, fn *ssa.Function, a []Value) Value {
		ifc := a[0].(Iface)
		s, ok := ifc.v.(Slice)
		if !ok {
			panic(&goPanic{msg: "sort.Slice of non-slice", runtime: true})
		}
		less := a[1]
		for i := 1; i < s.len; i++ {
			for j := i; j > 0; j-- {
				r := x.callValue(c, less, []Value{mkBV(64, uint64(j)), mkBV(64, uint64(j-1))})
				if !x.ps.decide(termOf(r), "sort.less") {
					break
				}
				vj, vk := s.get(j), s.get(j-1)
				s.set(j, vk)
				s.set(j-1, vj)
			}
		}
		return nil
	}
	intrinsics["sort.Slice"] = sortSlice
	intrinsics["sort.SliceStable"] = sortSlice
}
