package main

// math/big.Int modelled as an SMT Int (see DESIGN §2.6). A *big.Int is a pointer
// to an object holding a BigVal.

import (
	"fmt"
	"math/big"

	"golang.org/x/tools/go/ssa"
)

func (x *Exec) bigGet(v Value, what string) *Term {
	p, ok := v.(Ptr)
	if !ok {
		panic(fmt.Sprintf("big: expected *big.Int, got %T", v))
	}
	if p.isNil() {
		panic(&goPanic{msg: "nil pointer dereference (*big.Int in " + what + ")", runtime: true})
	}
	bv, ok := x.peek(p).(BigVal)
	if !ok {
		panic(unsupported{fmt.Sprintf("big: pointer to %T in %s", x.peek(p), what)})
	}
	return bv.t
}

func (x *Exec) bigSet(v Value, t *Term, what string) Value {
	p := v.(Ptr)
	if p.isNil() {
		panic(&goPanic{msg: "nil pointer dereference (*big.Int receiver in " + what + ")", runtime: true})
	}
	p.store(BigVal{t: t})
	return p
}

func newBig(t *Term) Value { return Ptr{o: newObj(BigVal{t: t})} }

func intOfBytes(bs []*Term) *Term {
	acc := mkIntI(0)
	c256 := mkIntI(256)
	for _, b := range bs {
		acc = intBin(OpIAdd, intBin(OpIMul, acc, c256), mkBV2Int(b))
	}
	return acc
}

func pow256(k int) *Term {
	return mkInt(new(big.Int).Lsh(big.NewInt(1), uint(8*k)))
}

// bigByteLen case-splits the byte length of |t| (0 for zero), bounded by maxBigBytes.
const maxBigBytes = 40

func (x *Exec) bigByteLen(t *Term) int {
	if t.isConst() {
		return (new(big.Int).Abs(t.big).BitLen() + 7) / 8
	}
	a := mkIAbs(t)
	for k := 0; k <= maxBigBytes; k++ {
		if x.ps.decide(intCmp(OpILt, a, pow256(k)), "big-bytelen") {
			return k
		}
	}
	x.ps.h.abandoned("big.Int longer than 40 bytes")
	panic(pathEnd{"case-split cap"})
}

func (x *Exec) bigBytes(t *Term, n int) []*Term {
	// big-endian bytes of |t| in exactly n bytes (caller guarantees it fits)
	a := mkIAbs(t)
	out := make([]*Term, n)
	if a.isConst() {
		b := a.big.FillBytes(make([]byte, n))
		for i := range out {
			out[i] = mkBV(8, uint64(b[i]))
		}
		return out
	}
	for i := 0; i < n; i++ {
		// byte i (from the most significant) = (a div 256^(n-1-i)) mod 256
		q := intBin(OpIDiv, a, pow256(n-1-i))
		out[i] = mkInt2BV(intBin(OpIMod, q, mkIntI(256)), 8)
	}
	if n > 0 {
		x.bigBytesMemo = append(x.bigBytesMemo, bigBytesRec{a: a, bs: append([]*Term{}, out...)})
	}
	return out
}

// bigBytesRec remembers the byte terms produced for |a| (a < 256^len(bs) on this
// path), so that SetBytes of exactly those bytes gives back a instead of a
// div/mod/int2bv chain the solver has to see through.
type bigBytesRec struct {
	a  *Term
	bs []*Term
}

func (x *Exec) intOfBytesMemo(bs []*Term) *Term {
	for _, r := range x.bigBytesMemo {
		if len(r.bs) != len(bs) {
			continue
		}
		same := true
		for i := range bs {
			if bs[i] != r.bs[i] {
				same = false
				break
			}
		}
		if same {
			return r.a
		}
	}
	return intOfBytes(bs)
}

func intSign(t *Term) *Term {
	z := mkIntI(0)
	return mkIte(intCmp(OpILt, t, z), mkBV(64, ^uint64(0)), mkIte(intCmp(OpILt, z, t), mkBV(64, 1), mkBV(64, 0)))
}

func intCmp3(a, b *Term) *Term {
	return mkIte(intCmp(OpILt, a, b), mkBV(64, ^uint64(0)), mkIte(intCmp(OpILt, b, a), mkBV(64, 1), mkBV(64, 0)))
}

func int64ToInt(t *Term, signed bool) *Term {
	if t.isConst() {
		if signed {
			return mkIntI(signExt(t.k, t.w))
		}
		return mkInt(new(big.Int).SetUint64(t.k))
	}
	u := mkBV2Int(t)
	if !signed {
		return u
	}
	// two's complement: u - 2^w if sign bit set
	neg := mkCmp(OpSlt, t, mkBV(t.w, 0))
	return mkIte(neg, intBin(OpISub, u, mkInt(new(big.Int).Lsh(big.NewInt(1), uint(t.w)))), u)
}

func (x *Exec) intUF(name string, args ...*Term) *Term {
	// uninterpreted Int function via fresh variable + Ackermann constraints
	ps := x.ps
	key := "intuf:" + name
	out := ps.fresh(key, WInt)
	for _, prev := range x.intUFApps[key] {
		if len(prev.args) != len(args) {
			continue
		}
		eq := constTrue
		for i := range args {
			eq = mkAnd(eq, mkEq(args[i], prev.args[i]))
		}
		if eq.isFalse() {
			continue
		}
		if eq.isTrue() {
			return prev.out
		}
		ps.solver.Assert(mkOr(mkNot(eq), mkEq(out, prev.out)))
		if ps.evalBool(eq) {
			if _, have := ps.witness[out.name]; !have {
				ps.witness[out.name] = ps.ev.eval(prev.out).big
			}
		}
	}
	if x.intUFApps == nil {
		x.intUFApps = map[string][]*intUFApp{}
	}
	x.intUFApps[key] = append(x.intUFApps[key], &intUFApp{args: args, out: out})
	return out
}

type intUFApp struct {
	args []*Term
	out  *Term
}

func init() {
	I := intrinsics
	B := "(*math/big.Int)."
	I["math/big.NewInt"] = func(x *Exec, c *frame, fn *ssa.Function, a []Value) Value {
		return newBig(int64ToInt(termOf(a[0]), true))
	}
	I[B+"SetInt64"] = func(x *Exec, c *frame, fn *ssa.Function, a []Value) Value {
		return x.bigSet(a[0], int64ToInt(termOf(a[1]), true), "SetInt64")
	}
	I[B+"SetUint64"] = func(x *Exec, c *frame, fn *ssa.Function, a []Value) Value {
		return x.bigSet(a[0], int64ToInt(termOf(a[1]), false), "SetUint64")
	}
	I[B+"Set"] = func(x *Exec, c *frame, fn *ssa.Function, a []Value) Value {
		return x.bigSet(a[0], x.bigGet(a[1], "Set"), "Set")
	}
	I[B+"SetBytes"] = func(x *Exec, c *frame, fn *ssa.Function, a []Value) Value {
		return x.bigSet(a[0], x.intOfBytesMemo(sliceTerms(a[1].(Slice))), "SetBytes")
	}
	I[B+"Bytes"] = func(x *Exec, c *frame, fn *ssa.Function, a []Value) Value {
		t := x.bigGet(a[0], "Bytes")
		n := x.bigByteLen(t)
		return byteSliceOf(x.bigBytes(t, n))
	}
	I[B+"FillBytes"] = func(x *Exec, c *frame, fn *ssa.Function, a []Value) Value {
		t := x.bigGet(a[0], "FillBytes")
		buf := a[1].(Slice)
		n := x.bigByteLen(t)
		if n > buf.len {
			panic(&goPanic{msg: "math/big: buffer too small to fit value", runtime: true})
		}
		bs := x.bigBytes(t, buf.len)
		for i, b := range bs {
			buf.set(i, b)
		}
		return buf
	}
	I[B+"Sign"] = func(x *Exec, c *frame, fn *ssa.Function, a []Value) Value {
		return intSign(x.bigGet(a[0], "Sign"))
	}
	I[B+"Cmp"] = func(x *Exec, c *frame, fn *ssa.Function, a []Value) Value {
		return intCmp3(x.bigGet(a[0], "Cmp"), x.bigGet(a[1], "Cmp"))
	}
	I[B+"CmpAbs"] = func(x *Exec, c *frame, fn *ssa.Function, a []Value) Value {
		return intCmp3(mkIAbs(x.bigGet(a[0], "CmpAbs")), mkIAbs(x.bigGet(a[1], "CmpAbs")))
	}
	bin := func(op Op, name string) intrinsic {
		return func(x *Exec, c *frame, fn *ssa.Function, a []Value) Value {
			return x.bigSet(a[0], intBin(op, x.bigGet(a[1], name), x.bigGet(a[2], name)), name)
		}
	}
	I[B+"Add"] = bin(OpIAdd, "Add")
	I[B+"Sub"] = bin(OpISub, "Sub")
	I[B+"Mul"] = func(x *Exec, c *frame, fn *ssa.Function, a []Value) Value {
		p, q := x.bigGet(a[1], "Mul"), x.bigGet(a[2], "Mul")
		if p.isConst() || q.isConst() {
			return x.bigSet(a[0], intBin(OpIMul, p, q), "Mul")
		}
		if t := smallMul(p, q); t != nil {
			return x.bigSet(a[0], t, "Mul")
		}
		return x.bigSet(a[0], x.intUF("mul", p, q), "Mul")
	}
	I[B+"Neg"] = func(x *Exec, c *frame, fn *ssa.Function, a []Value) Value {
		return x.bigSet(a[0], mkINeg(x.bigGet(a[1], "Neg")), "Neg")
	}
	I[B+"Abs"] = func(x *Exec, c *frame, fn *ssa.Function, a []Value) Value {
		return x.bigSet(a[0], mkIAbs(x.bigGet(a[1], "Abs")), "Abs")
	}
	I[B+"Not"] = func(x *Exec, c *frame, fn *ssa.Function, a []Value) Value {
		// -x - 1
		return x.bigSet(a[0], intBin(OpISub, mkINeg(x.bigGet(a[1], "Not")), mkIntI(1)), "Not")
	}
	I[B+"Lsh"] = func(x *Exec, c *frame, fn *ssa.Function, a []Value) Value {
		n, ok := concreteInt(a[2])
		if !ok {
			panic(unsupported{"big.Lsh by symbolic amount"})
		}
		return x.bigSet(a[0], intBin(OpIMul, x.bigGet(a[1], "Lsh"), mkInt(new(big.Int).Lsh(big.NewInt(1), uint(n)))), "Lsh")
	}
	I[B+"Rsh"] = func(x *Exec, c *frame, fn *ssa.Function, a []Value) Value {
		n, ok := concreteInt(a[2])
		if !ok {
			panic(unsupported{"big.Rsh by symbolic amount"})
		}
		// arithmetic shift = floor division
		return x.bigSet(a[0], intBin(OpIDiv, x.bigGet(a[1], "Rsh"), mkInt(new(big.Int).Lsh(big.NewInt(1), uint(n)))), "Rsh")
	}
	I[B+"BitLen"] = func(x *Exec, c *frame, fn *ssa.Function, a []Value) Value {
		t := x.bigGet(a[0], "BitLen")
		if t.isConst() {
			return mkBV(64, uint64(new(big.Int).Abs(t.big).BitLen()))
		}
		ab := mkIAbs(t)
		for k := 0; k <= 8*maxBigBytes; k++ {
			if x.ps.decide(intCmp(OpILt, ab, mkInt(new(big.Int).Lsh(big.NewInt(1), uint(k)))), "big-bitlen") {
				return mkBV(64, uint64(k))
			}
		}
		x.ps.h.abandoned("big.Int BitLen above cap")
		panic(pathEnd{"case-split cap"})
	}
	I[B+"IsInt64"] = func(x *Exec, c *frame, fn *ssa.Function, a []Value) Value {
		t := x.bigGet(a[0], "IsInt64")
		lo := mkInt(new(big.Int).Neg(new(big.Int).Lsh(big.NewInt(1), 63)))
		hi := mkInt(new(big.Int).Lsh(big.NewInt(1), 63))
		return mkAnd(intCmp(OpILe, lo, t), intCmp(OpILt, t, hi))
	}
	I[B+"IsUint64"] = func(x *Exec, c *frame, fn *ssa.Function, a []Value) Value {
		t := x.bigGet(a[0], "IsUint64")
		return mkAnd(intCmp(OpILe, mkIntI(0), t), intCmp(OpILt, t, mkInt(new(big.Int).Lsh(big.NewInt(1), 64))))
	}
	I[B+"Int64"] = func(x *Exec, c *frame, fn *ssa.Function, a []Value) Value {
		return mkInt2BV(x.bigGet(a[0], "Int64"), 64)
	}
	I[B+"Uint64"] = func(x *Exec, c *frame, fn *ssa.Function, a []Value) Value {
		return mkInt2BV(x.bigGet(a[0], "Uint64"), 64)
	}
	I[B+"String"] = func(x *Exec, c *frame, fn *ssa.Function, a []Value) Value {
		p := a[0].(Ptr)
		if p.isNil() {
			return strConst("<nil>")
		}
		t := x.bigGet(a[0], "String")
		if t.isConst() {
			return strConst(t.big.String())
		}
		return &Str{inj: t}
	}
	I[B+"Text"] = func(x *Exec, c *frame, fn *ssa.Function, a []Value) Value {
		t := x.bigGet(a[0], "Text")
		base, _ := concreteInt(a[1])
		if t.isConst() {
			return strConst(t.big.Text(int(base)))
		}
		return &Str{inj: t}
	}
	modLike := func(name string, op Op) intrinsic {
		return func(x *Exec, c *frame, fn *ssa.Function, a []Value) Value {
			p, q := x.bigGet(a[1], name), x.bigGet(a[2], name)
			if !x.ps.decide(mkNot(mkEq(q, mkIntI(0))), "big-divzero") {
				panic(&goPanic{msg: "division by zero", runtime: true})
			}
			if p.isConst() && q.isConst() {
				r := new(big.Int)
				switch name {
				case "Mod":
					r.Mod(p.big, q.big)
				case "Div":
					r.Div(p.big, q.big)
				case "Quo":
					r.Quo(p.big, q.big)
				case "Rem":
					r.Rem(p.big, q.big)
				}
				return x.bigSet(a[0], mkInt(r), name)
			}
			if name == "Mod" || name == "Div" {
				return x.bigSet(a[0], intBin(op, p, q), name) // Euclidean, as SMT-LIB div/mod
			}
			return x.bigSet(a[0], x.intUF(name, p, q), name)
		}
	}
	I[B+"Mod"] = modLike("Mod", OpIMod)
	I[B+"Div"] = modLike("Div", OpIDiv)
	I[B+"Quo"] = modLike("Quo", OpIDiv)
	I[B+"Rem"] = modLike("Rem", OpIMod)
	I[B+"Exp"] = func(x *Exec, c *frame, fn *ssa.Function, a []Value) Value {
		b, e := x.bigGet(a[1], "Exp"), x.bigGet(a[2], "Exp")
		var m *Term
		if mp := a[3].(Ptr); mp.isNil() {
			m = mkIntI(0)
		} else {
			m = x.bigGet(a[3], "Exp")
		}
		if b.isConst() && e.isConst() && m.isConst() && e.big.BitLen() < 4096 {
			var mm *big.Int
			if m.big.Sign() != 0 {
				mm = m.big
			}
			return x.bigSet(a[0], mkInt(new(big.Int).Exp(b.big, e.big, mm)), "Exp")
		}
		// y < 0 with a modulus asks for a modular inverse, which may not exist
		// (then z is unchanged and nil is returned)
		if !m.isConst() || m.big.Sign() != 0 {
			if x.ps.decide(mkAnd(intCmp(OpILt, e, mkIntI(0)), mkNot(mkEq(m, mkIntI(0)))), "big-exp-negative") {
				if !x.ps.decide(x.ps.freshBool("big-exp-invertible"), "big-exp-invertible") {
					return nilPtr
				}
			}
		}
		if t := smallExp(b, e, m); t != nil {
			return x.bigSet(a[0], t, "Exp")
		}
		r := x.intUF("exp", b, e, m)
		// contract of modular exponentiation: 0 <= result < |m| when m != 0
		am := mkIAbs(m)
		x.ps.assume(mkOr(mkEq(m, mkIntI(0)), mkAnd(intCmp(OpILe, mkIntI(0), r), intCmp(OpILt, r, am))))
		return x.bigSet(a[0], r, "Exp")
	}
	I[B+"ModInverse"] = func(x *Exec, c *frame, fn *ssa.Function, a []Value) Value {
		g, n := x.bigGet(a[1], "ModInverse"), x.bigGet(a[2], "ModInverse")
		if g.isConst() && n.isConst() {
			r := new(big.Int).ModInverse(g.big, n.big)
			if r == nil {
				return nilPtr
			}
			return x.bigSet(a[0], mkInt(r), "ModInverse")
		}
		if val, inv, ok := smallModInverse(g, n); ok {
			if !x.ps.decide(inv, "big-modinverse-exists") {
				return nilPtr
			}
			return x.bigSet(a[0], val, "ModInverse")
		}
		return x.bigSet(a[0], x.intUF("modinverse", g, n), "ModInverse")
	}
	I[B+"ProbablyPrime"] = func(x *Exec, c *frame, fn *ssa.Function, a []Value) Value {
		t := x.bigGet(a[0], "ProbablyPrime")
		if t.isConst() {
			return mkBool(t.big.ProbablyPrime(20))
		}
		return mkEq(x.intUF("probablyprime", t), mkIntI(1))
	}
	I[B+"SetString"] = func(x *Exec, c *frame, fn *ssa.Function, a []Value) Value {
		base, _ := concreteInt(a[2])
		if st := a[1].(*Str); st.inj != nil && base == 10 {
			// the decimal rendering of an Int term (big.Int.String) parses back to it
			return Tuple{x.bigSet(a[0], st.inj, "SetString"), constTrue}
		}
		s, ok := a[1].(*Str).concrete()
		if !ok {
			panic(unsupported{"big.SetString of symbolic string"})
		}
		v, good := new(big.Int).SetString(s, int(base))
		if !good {
			return Tuple{nilPtr, constFalse}
		}
		return Tuple{x.bigSet(a[0], mkInt(v), "SetString"), constTrue}
	}
	I[B+"Bit"] = func(x *Exec, c *frame, fn *ssa.Function, a []Value) Value {
		t := x.bigGet(a[0], "Bit")
		i, ok := concreteInt(a[1])
		if !ok {
			panic(unsupported{"big.Bit with symbolic index"})
		}
		q := intBin(OpIDiv, t, mkInt(new(big.Int).Lsh(big.NewInt(1), uint(i))))
		return mkZExt(mkInt2BV(intBin(OpIMod, q, mkIntI(2)), 8), 64)
	}
}
