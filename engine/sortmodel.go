package main

// sort.Slice / sort.SliceStable / sort.SliceIsSorted over the executor's slices.
// The standard implementation swaps through reflectlite; here the same algorithms
// (a port of sort.stable: insertion-sorted blocks of 20 merged with symMerge) run
// with the less closure called through the executor, so a symbolic comparison
// forks like any other branch. sort.Slice is modelled by the stable algorithm (one
// of the orders the unstable one may produce).

import (
	"golang.org/x/tools/go/ssa"
)

type sliceSorter struct {
	x    *Exec
	fr   *frame
	s    Slice
	less Value
}

func (q *sliceSorter) Less(i, j int) bool {
	r := q.x.callValue(q.fr, q.less, []Value{mkBV(64, uint64(i)), mkBV(64, uint64(j))})
	return q.x.ps.decide(r.(*Term), "sort-less")
}

func (q *sliceSorter) Swap(i, j int) {
	a, b := q.s.get(i), q.s.get(j)
	q.s.set(i, b)
	q.s.set(j, a)
}

func (q *sliceSorter) insertionSort(a, b int) {
	for i := a + 1; i < b; i++ {
		for j := i; j > a && q.Less(j, j-1); j-- {
			q.Swap(j, j-1)
		}
	}
}

func (q *sliceSorter) stable(n int) {
	blockSize := 20
	a, b := 0, blockSize
	for b <= n {
		q.insertionSort(a, b)
		a = b
		b += blockSize
	}
	q.insertionSort(a, n)
	for blockSize < n {
		a, b = 0, 2*blockSize
		for b <= n {
			q.symMerge(a, a+blockSize, b)
			a = b
			b += 2 * blockSize
		}
		if m := a + blockSize; m < n {
			q.symMerge(a, m, n)
		}
		blockSize *= 2
	}
}

func (q *sliceSorter) symMerge(a, m, b int) {
	if m-a == 1 {
		i, j := m, b
		for i < j {
			h := int(uint(i+j) >> 1)
			if q.Less(h, a) {
				i = h + 1
			} else {
				j = h
			}
		}
		for k := a; k < i-1; k++ {
			q.Swap(k, k+1)
		}
		return
	}
	if b-m == 1 {
		i, j := a, m
		for i < j {
			h := int(uint(i+j) >> 1)
			if !q.Less(m, h) {
				i = h + 1
			} else {
				j = h
			}
		}
		for k := m; k > i; k-- {
			q.Swap(k, k-1)
		}
		return
	}
	mid := int(uint(a+b) >> 1)
	n := mid + m
	var start, r int
	if m > mid {
		start = n - b
		r = mid
	} else {
		start = a
		r = m
	}
	p := n - 1
	for start < r {
		c := int(uint(start+r) >> 1)
		if !q.Less(p-c, c) {
			start = c + 1
		} else {
			r = c
		}
	}
	end := n - start
	if start < m && m < end {
		q.rotate(start, m, end)
	}
	if a < start && start < mid {
		q.symMerge(a, start, mid)
	}
	if mid < end && end < b {
		q.symMerge(mid, end, b)
	}
}

func (q *sliceSorter) swapRange(a, b, n int) {
	for i := 0; i < n; i++ {
		q.Swap(a+i, b+i)
	}
}

func (q *sliceSorter) rotate(a, m, b int) {
	i := m - a
	j := b - m
	for i != j {
		if i > j {
			q.swapRange(m-i, m, j)
			i -= j
		} else {
			q.swapRange(m-i, m+j-i, i)
			j -= i
		}
	}
	q.swapRange(m-i, m, i)
}

func init() {
	sortSlice := func(x *Exec, c *frame, fn *ssa.Function, a []Value) Value {
		ifc := a[0].(Iface)
		s, ok := ifc.v.(Slice)
		if !ok {
			panic(&goPanic{msg: "sort: argument is not a slice", runtime: true})
		}
		q := &sliceSorter{x: x, fr: c, s: s, less: a[1]}
		q.stable(s.len)
		return nil
	}
	intrinsics["sort.SliceStable"] = sortSlice
	intrinsics["sort.Slice"] = sortSlice
	intrinsics["sort.SliceIsSorted"] = func(x *Exec, c *frame, fn *ssa.Function, a []Value) Value {
		s := a[0].(Iface).v.(Slice)
		q := &sliceSorter{x: x, fr: c, s: s, less: a[1]}
		for i := s.len - 1; i > 0; i-- {
			if q.Less(i, i-1) {
				return constFalse
			}
		}
		return constTrue
	}
}
