package main

// encoding/json as an identity carrier (C33): Marshal keeps the value, Unmarshal
// copies it into the target, matching struct fields by JSON name and converting
// numbers with a range check. encoding/json's own behaviour is outside the claim.
// Also: fmt.Sprintf with concrete arguments is computed natively; with symbolic
// arguments it yields an opaque string that is injective in its arguments for
// single-verb formats.

import (
	"fmt"
	"go/types"
	"reflect"
	"strings"

	"golang.org/x/tools/go/ssa"
)

type jsonVal struct {
	t types.Type
	v Value
}

func jsonName(f *types.Var, tag string) (string, bool) {
	name := f.Name()
	if jt, ok := reflect.StructTag(tag).Lookup("json"); ok {
		parts := strings.Split(jt, ",")
		if parts[0] == "-" {
			return "", false
		}
		if parts[0] != "" {
			name = parts[0]
		}
	}
	if !f.Exported() {
		return "", false
	}
	return name, true
}

func (x *Exec) hasMethod(t types.Type, name string) *ssa.Function {
	var pkg *types.Package
	ms := x.prog.MethodSets.MethodSet(t)
	for i := 0; i < ms.Len(); i++ {
		if ms.At(i).Obj().Name() == name {
			return x.prog.MethodValue(ms.At(i))
		}
	}
	_ = pkg
	return nil
}

// jsonAssign copies src (of type st) into the location dst (of type dt).
func (x *Exec) jsonAssign(dst Ptr, dt types.Type, src Value, st types.Type) *Str {
	// a target with its own UnmarshalJSON decodes the bytes its counterpart's
	// MarshalJSON produced (or a carrier token for plain values)
	if !x.jsonTop {
		if um := x.hasMethod(types.NewPointer(dt), "UnmarshalJSON"); um != nil {
			var data Value
			if mm := x.hasMethod(st, "MarshalJSON"); mm != nil {
				res := x.callFunction(mm, []Value{src}, nil, nil).(Tuple)
				if e := res[1].(Iface); e.t != nil {
					return strConst("json: error calling MarshalJSON")
				}
				data = res[0]
			} else if mm := x.hasMethod(types.NewPointer(st), "MarshalJSON"); mm != nil {
				o := newObj(copyVal(src))
				res := x.callFunction(mm, []Value{Ptr{o: o}}, nil, nil).(Tuple)
				if e := res[1].(Iface); e.t != nil {
					return strConst("json: error calling MarshalJSON")
				}
				data = res[0]
			} else {
				id := len(x.jsonVals)
				x.jsonVals = append(x.jsonVals, jsonVal{t: st, v: copyVal(src)})
				data = byteSliceOf([]*Term{mkBV(8, 0), mkBV(8, 'J'), mkBV(8, uint64(id))})
			}
			r := x.callFunction(um, []Value{dst, data}, nil, nil)
			if e := r.(Iface); e.t != nil {
				return strConst("json: UnmarshalJSON failed")
			}
			return nil
		}
	}
	x.jsonTop = false
	// pointers on the source side are followed
	if sp, ok := st.Underlying().(*types.Pointer); ok {
		p := src.(Ptr)
		if p.isNil() {
			return nil // null: leave the target unchanged
		}
		return x.jsonAssign(dst, dt, p.load(), sp.Elem())
	}
	if dp, ok := dt.Underlying().(*types.Pointer); ok {
		// allocate
		o := newObj(zeroValue(dp.Elem()))
		np := Ptr{o: o}
		if e := x.jsonAssign(np, dp.Elem(), src, st); e != nil {
			return e
		}
		dst.store(np)
		return nil
	}
	switch du := dt.Underlying().(type) {
	case *types.Basic:
		su, ok := st.Underlying().(*types.Basic)
		if !ok {
			return strConst("json: cannot unmarshal into " + dt.String())
		}
		dw, dsigned, dnum := isWidthType(dt)
		sw, ssigned, snum := isWidthType(st)
		switch {
		case isString(dt) && isString(st):
			dst.store(src)
		case dnum && snum && dw == WBool && sw == WBool:
			dst.store(src)
		case dnum && snum && dw != WBool && sw != WBool:
			t := termOf(src)
			// value as a 65-bit signed quantity: range check against the target
			var wide *Term
			if ssigned {
				wide = mkSExt(t, 64)
			} else {
				wide = mkZExt(t, 64)
			}
			var fits *Term
			if dsigned {
				lo := mkBV(64, uint64(-(int64(1) << uint(dw-1))))
				hi := mkBV(64, uint64((int64(1)<<uint(dw-1))-1))
				if dw == 64 {
					fits = constTrue
					if !ssigned {
						fits = mkCmp(OpSle, mkBV(64, 0), wide)
					}
				} else {
					fits = mkAnd(mkCmp(OpSle, lo, wide), mkCmp(OpSle, wide, hi))
					if !ssigned && sw == 64 {
						fits = mkAnd(fits, mkCmp(OpSle, mkBV(64, 0), wide))
					}
				}
			} else {
				if dw == 64 {
					fits = constTrue
					if ssigned {
						fits = mkCmp(OpSle, mkBV(64, 0), wide)
					}
				} else {
					fits = mkCmp(OpUle, wide, mkBV(64, mask(dw)))
					if ssigned {
						fits = mkAnd(fits, mkCmp(OpSle, mkBV(64, 0), wide))
					}
				}
			}
			if !x.ps.decide(fits, "json-number-range") {
				return strConst("json: cannot unmarshal number into Go value of type " + dt.String())
			}
			dst.store(mkExtract(wide, 0, dw))
		default:
			return strConst("json: cannot unmarshal " + su.String() + " into " + du.String())
		}
		return nil
	case *types.Struct:
		su, ok := st.Underlying().(*types.Struct)
		if !ok {
			return strConst("json: cannot unmarshal into struct " + dt.String())
		}
		sa := src.(*Agg)
		for i := 0; i < du.NumFields(); i++ {
			dn, ok := jsonName(du.Field(i), du.Tag(i))
			if !ok {
				continue
			}
			for j := 0; j < su.NumFields(); j++ {
				sn, ok := jsonName(su.Field(j), su.Tag(j))
				if !ok || !strings.EqualFold(sn, dn) {
					continue
				}
				if e := x.jsonAssign(dst.child(i), du.Field(i).Type(), sa.e[j], su.Field(j).Type()); e != nil {
					return e
				}
			}
		}
		return nil
	case *types.Slice:
		ss, ok := st.Underlying().(*types.Slice)
		if !ok || !types.Identical(ss.Elem().Underlying(), du.Elem().Underlying()) {
			return strConst("json: cannot unmarshal into slice " + dt.String())
		}
		s := src.(Slice)
		if s.isNil {
			dst.store(Slice{isNil: true})
			return nil
		}
		vals := make([]Value, s.len)
		for i := range vals {
			vals[i] = copyVal(s.get(i))
		}
		dst.store(Slice{o: newObj(&Agg{e: vals}), len: s.len, cap: s.len})
		return nil
	case *types.Array:
		sa, ok := src.(*Agg)
		if !ok {
			return strConst("json: cannot unmarshal into array")
		}
		dst.store(sa)
		return nil
	}
	panic(unsupported{"json carrier: target type " + dt.String()})
}

func init() {
	// json.Number is a string type; String returns it unchanged
	intrinsics["(encoding/json.Number).String"] = func(x *Exec, c *frame, fn *ssa.Function, a []Value) Value { return a[0] }
	intrinsics["encoding/json.Marshal"] = func(x *Exec, c *frame, fn *ssa.Function, a []Value) Value {
		ifc := a[0].(Iface)
		if ifc.t == nil {
			return Tuple{byteSliceOf(strConst("null").b), Iface{}}
		}
		// a type with its own MarshalJSON is encoded by it
		if m := x.hasMethod(ifc.t, "MarshalJSON"); m != nil {
			return x.callFunction(m, []Value{ifc.v}, nil, c)
		}
		id := len(x.jsonVals)
		v := ifc.v
		t := ifc.t
		if pt, ok := t.Underlying().(*types.Pointer); ok {
			p := v.(Ptr)
			if p.isNil() {
				return Tuple{byteSliceOf(strConst("null").b), Iface{}}
			}
			if m := x.hasMethod(pt.Elem(), "MarshalJSON"); m != nil {
				return x.callFunction(m, []Value{p.load()}, nil, c)
			}
			v, t = p.load(), pt.Elem()
		}
		x.jsonVals = append(x.jsonVals, jsonVal{t: t, v: copyVal(v)})
		tok := []*Term{mkBV(8, 0), mkBV(8, 'J'), mkBV(8, uint64(id))}
		return Tuple{byteSliceOf(tok), Iface{}}
	}
	intrinsics["encoding/json.Unmarshal"] = func(x *Exec, c *frame, fn *ssa.Function, a []Value) Value {
		data := sliceTerms(a[0].(Slice))
		target := a[1].(Iface)
		if target.t == nil {
			return x.newError(strConst("json: Unmarshal(nil)"))
		}
		pt, ok := target.t.Underlying().(*types.Pointer)
		if !ok || target.v.(Ptr).isNil() {
			return x.newError(strConst("json: Unmarshal(non-pointer)"))
		}
		if m := x.hasMethod(target.t, "UnmarshalJSON"); m != nil {
			return x.callFunction(m, []Value{target.v, a[0]}, nil, c)
		}
		if len(data) == 4 && data[0].isConst() && data[0].k == 'n' {
			return Iface{} // null
		}
		// a JSON string literal written by hand ("..." without escapes) into *string
		if isString(pt.Elem()) && len(data) >= 2 && data[0].isConst() && data[0].k == '"' && data[len(data)-1].isConst() && data[len(data)-1].k == '"' {
			inner := data[1 : len(data)-1]
			for _, b := range inner {
				plain := mkAnd(mkNot(mkEq(b, mkBV(8, '"'))), mkAnd(mkNot(mkEq(b, mkBV(8, '\\'))), mkCmp(OpUle, mkBV(8, 0x20), b)))
				if !x.ps.decide(plain, "json-string-escape") {
					panic(unsupported{"json string literal with escapes"})
				}
			}
			target.v.(Ptr).store(&Str{b: inner})
			return Iface{}
		}
		if len(data) != 3 || !data[0].isConst() || data[0].k != 0 || !data[1].isConst() || data[1].k != 'J' || !data[2].isConst() || int(data[2].k) >= len(x.jsonVals) {
			panic(unsupported{"json.Unmarshal of bytes that do not come from the carrier"})
		}
		jv := x.jsonVals[data[2].k]
		x.jsonTop = true
		if e := x.jsonAssign(target.v.(Ptr), pt.Elem(), jv.v, jv.t); e != nil {
			return x.newError(e)
		}
		return Iface{}
	}

	// fmt.Sprintf / Errorf: native when every argument is concrete
	sprintf := func(x *Exec, a []Value) (*Str, bool) {
		format, ok := a[0].(*Str).concrete()
		if !ok {
			return nil, false
		}
		args := a[1].(Slice)
		goargs := make([]interface{}, args.len)
		sym := false
		for i := 0; i < args.len; i++ {
			ifc, ok := args.get(i).(Iface)
			if !ok || ifc.t == nil {
				goargs[i] = nil
				continue
			}
			switch v := ifc.v.(type) {
			case *Term:
				if !v.isConst() {
					sym = true
					continue
				}
				w, signed, _ := isWidthType(ifc.t)
				switch {
				case w == WBool:
					goargs[i] = v.k == 1
				case signed:
					goargs[i] = signExt(v.k, v.w)
				default:
					goargs[i] = v.k
				}
			case *Str:
				s, ok := v.concrete()
				if !ok {
					sym = true
					continue
				}
				goargs[i] = s
			default:
				return nil, false
			}
		}
		if sym {
			if strings.Count(format, "%") != 1 {
				return nil, false
			}
			var key []Value
			for i := 0; i < args.len; i++ {
				key = append(key, args.get(i).(Iface).v)
			}
			return &Str{opaque: "fmt:" + format, opaqueArgs: key}, true
		}
		return strConst(fmt.Sprintf(format, goargs...)), true
	}
	intrinsics["fmt.Sprintf"] = func(x *Exec, c *frame, fn *ssa.Function, a []Value) Value {
		if s, ok := sprintf(x, a); ok {
			return s
		}
		return &Str{opaque: "fmt.Sprintf"}
	}
	intrinsics["fmt.Sprint"] = func(x *Exec, c *frame, fn *ssa.Function, a []Value) Value {
		// fmt.Sprint of a single string operand is that string
		if sl, ok := a[0].(Slice); ok && sl.len == 1 {
			if ifc, ok := sl.get(0).(Iface); ok && ifc.t != nil && isString(ifc.t) {
				if s, ok := ifc.v.(*Str); ok {
					return s
				}
			}
		}
		return &Str{opaque: "fmt.Sprint"}
	}
	intrinsics["fmt.Errorf"] = func(x *Exec, c *frame, fn *ssa.Function, a []Value) Value {
		if s, ok := sprintf(x, a); ok {
			return x.newError(s)
		}
		return x.newError(&Str{opaque: "fmt.Errorf"})
	}
}
