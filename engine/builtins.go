package main

import (
	"fmt"
	"go/types"
	"unicode/utf8"

	"golang.org/x/tools/go/ssa"
)

func decodeRuneBytes(b []byte) (rune, int) { return utf8.DecodeRune(b) }

func (x *Exec) builtin(fr *frame, b *ssa.Builtin, args []Value, c *ssa.CallCommon, asDefer bool) Value {
	switch b.Name() {
	case "len":
		switch v := args[0].(type) {
		case *Str:
			if v.opaque != "" || v.inj != nil {
				panic(unsupported{"len of opaque string (" + v.opaque + ") in " + fr.fn.String()})
			}
			return mkBV(64, uint64(len(v.b)))
		case Slice:
			return mkBV(64, uint64(v.len))
		case *MapObj:
			return mkBV(64, uint64(x.mapLen(v)))
		case *Agg:
			return mkBV(64, uint64(len(v.e)))
		case Ptr:
			if v.isNil() {
				// len of nil *array is the array length (static)
				n := c.Args[0].Type().Underlying().(*types.Pointer).Elem().Underlying().(*types.Array).Len()
				return mkBV(64, uint64(n))
			}
			return mkBV(64, uint64(len(x.peek(v).(*Agg).e)))
		case *ChanObj:
			if v == nil {
				return mkBV(64, 0)
			}
			return mkBV(64, uint64(len(v.q)))
		case Opaque:
			panic(unsupported{"len of opaque: " + v.why})
		}
	case "cap":
		switch v := args[0].(type) {
		case Slice:
			return mkBV(64, uint64(v.cap))
		case *Agg:
			return mkBV(64, uint64(len(v.e)))
		case *ChanObj:
			return mkBV(64, 1<<30)
		case Ptr:
			n := c.Args[0].Type().Underlying().(*types.Pointer).Elem().Underlying().(*types.Array).Len()
			return mkBV(64, uint64(n))
		}
	case "append":
		return x.appendOp(args[0].(Slice), args[1], c.Args[0].Type())
	case "copy":
		dst := args[0].(Slice)
		var n int
		switch src := args[1].(type) {
		case Slice:
			n = dst.len
			if src.len < n {
				n = src.len
			}
			if n > 0 {
				tmp := make([]Value, n)
				for i := 0; i < n; i++ {
					tmp[i] = src.get(i)
				}
				for i := 0; i < n; i++ {
					dst.set(i, tmp[i])
				}
			}
		case *Str:
			src.check()
			n = dst.len
			if len(src.b) < n {
				n = len(src.b)
			}
			for i := 0; i < n; i++ {
				dst.set(i, src.b[i])
			}
		default:
			panic(fmt.Sprintf("copy from %T", args[1]))
		}
		return mkBV(64, uint64(n))
	case "delete":
		m := args[0].(*MapObj)
		if m != nil {
			if e := x.mapFind(m, args[1]); e != nil {
				e.deleted = true
			}
		}
		return nil
	case "close":
		ch := args[0].(*ChanObj)
		if ch == nil {
			panic(&goPanic{msg: "close of nil channel", runtime: true})
		}
		if ch.closed {
			panic(&goPanic{msg: "close of closed channel", runtime: true})
		}
		ch.closed = true
		return nil
	case "panic":
		panic(&goPanic{val: args[0]})
	case "print", "println":
		return nil
	case "recover":
		// valid only when called directly by a deferred function while its
		// caller is panicking
		if fr != nil && fr.isDefer && fr.caller != nil && fr.caller.panicking != nil && !fr.caller.panicking.recovered {
			gp := fr.caller.panicking
			gp.recovered = true
			if gp.val != nil {
				return gp.val
			}
			return Iface{t: runtimeErrorType(x.prog), v: strConst(gp.msg)}
		}
		return Iface{}
	case "min", "max":
		res := args[0]
		for _, a := range args[1:] {
			switch r := res.(type) {
			case *Term:
				at := a.(*Term)
				_, signed, _ := isWidthType(c.Args[0].Type())
				var lt *Term
				if signed {
					lt = mkCmp(OpSlt, at, r)
				} else {
					lt = mkCmp(OpUlt, at, r)
				}
				if b.Name() == "min" {
					res = mkIte(lt, at, r)
				} else {
					res = mkIte(lt, r, at)
				}
			case Float:
				af := a.(Float)
				if (b.Name() == "min") == (af.f < r.f) {
					res = af
				}
			default:
				panic(unsupported{"min/max on " + fmt.Sprintf("%T", res)})
			}
		}
		return res
	case "clear":
		switch v := args[0].(type) {
		case *MapObj:
			if v != nil {
				v.entries = nil
			}
		case Slice:
			el := c.Args[0].Type().Underlying().(*types.Slice).Elem()
			for i := 0; i < v.len; i++ {
				v.set(i, zeroValue(el))
			}
		}
		return nil
	case "ssa:wrapnilchk":
		p := args[0].(Ptr)
		if p.isNil() {
			panic(&goPanic{msg: "value method called using nil pointer", runtime: true})
		}
		return p
	case "ssa:deferstack":
		return nil
	case "String": // unsafe.String(ptr, len)
		p := args[0].(Ptr)
		n, ok := concreteInt(args[1])
		if !ok {
			panic(unsupported{"unsafe.String with symbolic len"})
		}
		if n == 0 {
			return &Str{}
		}
		if len(p.path) == 0 {
			panic(unsupported{"unsafe.String on non-element pointer"})
		}
		cont := p.container()
		base := p.path[len(p.path)-1]
		bs := make([]*Term, n)
		for i := range bs {
			bs[i] = termOf(cont.e[base+i])
		}
		return &Str{b: bs}
	case "SliceData":
		s := args[0].(Slice)
		if s.isNil || s.cap == 0 {
			if s.o == nil {
				return nilPtr
			}
		}
		return s.elemPtr(0)
	case "StringData":
		s := args[0].(*Str)
		a := &Agg{e: make([]Value, len(s.b))}
		for i, t := range s.b {
			a.e[i] = t
		}
		if len(s.b) == 0 {
			return nilPtr
		}
		return Ptr{o: newObj(a), path: []int{0}}
	case "Slice": // unsafe.Slice(ptr, len)
		p := args[0].(Ptr)
		n, ok := concreteInt(args[1])
		if !ok {
			panic(unsupported{"unsafe.Slice with symbolic len"})
		}
		if p.isNil() {
			return Slice{isNil: true}
		}
		if len(p.path) == 0 {
			panic(unsupported{"unsafe.Slice on non-element pointer"})
		}
		return Slice{o: p.o, path: p.path[:len(p.path)-1], off: p.path[len(p.path)-1], len: int(n), cap: int(n)}
	}
	panic(unsupported{"builtin " + b.Name() + fmt.Sprintf(" on %T", args[0])})
}

var rtErrType types.Type

func runtimeErrorType(prog *ssa.Program) types.Type {
	// a stand-in dynamic type for runtime panics handed to recover()
	if rtErrType == nil {
		rtErrType = types.NewNamed(types.NewTypeName(0, nil, "runtimeError", nil), types.Typ[types.String], nil)
	}
	return rtErrType
}

func (x *Exec) appendOp(s Slice, extra Value, st types.Type) Value {
	var add []Value
	switch e := extra.(type) {
	case Slice:
		add = make([]Value, e.len)
		for i := 0; i < e.len; i++ {
			add[i] = e.get(i)
		}
	case *Str:
		e.check()
		add = make([]Value, len(e.b))
		for i, t := range e.b {
			add[i] = t
		}
	default:
		panic(fmt.Sprintf("append of %T", extra))
	}
	if len(add) == 0 {
		return s
	}
	need := s.len + len(add)
	if !s.isNil && s.o != nil && need <= s.cap {
		ns := s
		ns.len = need
		for i, v := range add {
			ns.set(s.len+i, v)
		}
		return ns
	}
	nc := s.cap * 2
	if nc < need {
		nc = need
	}
	if nc < 8 && need <= 8 {
		nc = 8
	}
	if int64(nc) > x.allocLimit*2 {
		panic(&violation{Kind: "alloc", Msg: fmt.Sprintf("ALLOC-MONITOR: append growth to %d elements", nc)})
	}
	a := &Agg{e: make([]Value, nc)}
	for i := 0; i < s.len; i++ {
		a.e[i] = s.get(i)
	}
	for i, v := range add {
		a.e[s.len+i] = copyVal(v)
	}
	if nc > need {
		z := zeroValue(st.Underlying().(*types.Slice).Elem())
		_, isAgg := z.(*Agg)
		for i := need; i < nc; i++ {
			if isAgg {
				a.e[i] = copyVal(z)
			} else {
				a.e[i] = z
			}
		}
	}
	return Slice{o: newObj(a), len: need, cap: nc}
}
