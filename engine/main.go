package main

// gosym: bounded symbolic executor for Go SSA. See /verif/DESIGN.md.
//
//   gosym check -prop C19 [-tier quick|thorough] [-harness regex]
//   gosym replay <replay.json>

import (
	"encoding/json"
	"flag"
	"fmt"
	"go/ast"
	"go/parser"
	"go/token"
	"math/big"
	"os"
	"os/exec"
	"path/filepath"
	"regexp"
	"runtime"
	"sort"
	"strconv"
	"strings"
	"time"

	"golang.org/x/tools/go/packages"
	"golang.org/x/tools/go/ssa"
	"golang.org/x/tools/go/ssa/ssautil"
)

type bigInt = big.Int

func newBigU(k uint64) *big.Int { return new(big.Int).SetUint64(k) }

const (
	verifDir   = "/verif"
	modulePath = "github.com/zmap/zcrypto"
)

// repoDir is /repo for every registered check. GOSYM_REPO points a development
// run at a scratch worktree instead (harness work while /repo is busy); such a run
// never writes evidence under /verif.
var repoDir = func() string {
	if d := os.Getenv("GOSYM_REPO"); d != "" {
		fmt.Fprintf(os.Stderr, "NOTE: development run against %s, not /repo; no evidence is written\n", d)
		return d
	}
	return "/repo"
}()

type harnessInfo struct {
	pkgPath string // import path
	name    string
	file    string
	opts    map[string]string
}

// discover finds harness functions VerifH_<prop>_* under /verif/harness.
func discover(prop string, re *regexp.Regexp) ([]harnessInfo, map[string][]string) {
	var hs []harnessInfo
	pkgFiles := map[string][]string{} // import path -> harness files
	root := filepath.Join(verifDir, "harness")
	filepath.Walk(root, func(p string, info os.FileInfo, err error) error {
		if err != nil || info.IsDir() || !strings.HasSuffix(p, ".go") {
			return nil
		}
		rel, _ := filepath.Rel(root, filepath.Dir(p))
		if rel == "verifrt" {
			return nil
		}
		imp := modulePath
		if rel != "." {
			imp = modulePath + "/" + filepath.ToSlash(rel)
		}
		pkgFiles[imp] = append(pkgFiles[imp], p)
		fset := token.NewFileSet()
		f, err := parser.ParseFile(fset, p, nil, parser.ParseComments)
		if err != nil {
			fmt.Fprintf(os.Stderr, "parse %s: %v\n", p, err)
			os.Exit(3)
		}
		for _, d := range f.Decls {
			fd, ok := d.(*ast.FuncDecl)
			if !ok || fd.Recv != nil || !strings.HasPrefix(fd.Name.Name, "VerifH_") {
				continue
			}
			parts := strings.SplitN(fd.Name.Name, "_", 3)
			if len(parts) < 3 {
				continue
			}
			if prop != "" && parts[1] != prop {
				continue
			}
			if re != nil && !re.MatchString(fd.Name.Name) {
				continue
			}
			hi := harnessInfo{pkgPath: imp, name: fd.Name.Name, file: p, opts: map[string]string{}}
			if fd.Doc != nil {
				for _, c := range fd.Doc.List {
					if i := strings.Index(c.Text, "verif:"); i >= 0 {
						for _, kv := range strings.Fields(c.Text[i+6:]) {
							if j := strings.Index(kv, "="); j > 0 {
								hi.opts[kv[:j]] = kv[j+1:]
							}
						}
					}
				}
			}
			hs = append(hs, hi)
		}
		return nil
	})
	sort.Slice(hs, func(i, j int) bool { return hs[i].name < hs[j].name })
	return hs, pkgFiles
}

func overlayFor(pkgFiles map[string][]string, extra map[string][]byte) (map[string][]byte, map[string]string) {
	ov := map[string][]byte{}
	repl := map[string]string{}
	add := func(virtual, real string) {
		b, err := os.ReadFile(real)
		if err != nil {
			panic(err)
		}
		ov[virtual] = b
		repl[virtual] = real
	}
	add(filepath.Join(repoDir, "internal/verifrt/verifrt.go"), filepath.Join(verifDir, "harness/verifrt/verifrt.go"))
	for imp, files := range pkgFiles {
		rel := strings.TrimPrefix(strings.TrimPrefix(imp, modulePath), "/")
		for _, f := range files {
			add(filepath.Join(repoDir, rel, "zz_verif_"+filepath.Base(f)), f)
		}
	}
	for k, v := range extra {
		ov[k] = v
	}
	return ov, repl
}

func goEnv() []string {
	env := os.Environ()
	out := env[:0]
	for _, e := range env {
		if strings.HasPrefix(e, "GOFLAGS=") || strings.HasPrefix(e, "GOTOOLCHAIN=") || strings.HasPrefix(e, "GOPROXY=") || strings.HasPrefix(e, "PATH=") {
			continue
		}
		out = append(out, e)
	}
	out = append(out, "GOFLAGS=-mod=readonly", "GOTOOLCHAIN=local", "GOPROXY=off", "PATH="+os.Getenv("PATH"))
	return out
}

func loadProgram(pkgs []string, overlay map[string][]byte) (*ssa.Program, []*ssa.Package, error) {
	cfg := &packages.Config{
		Mode:       packages.LoadAllSyntax,
		Dir:        repoDir,
		Overlay:    overlay,
		BuildFlags: []string{"-tags=verif"},
		Env:        goEnv(),
	}
	initial, err := packages.Load(cfg, pkgs...)
	if err != nil {
		return nil, nil, err
	}
	nerr := 0
	packages.Visit(initial, nil, func(p *packages.Package) {
		for _, e := range p.Errors {
			fmt.Fprintf(os.Stderr, "load error: %s: %v\n", p.PkgPath, e)
			nerr++
		}
	})
	if nerr > 0 {
		return nil, nil, fmt.Errorf("%d package load errors", nerr)
	}
	prog, spkgs := ssautil.AllPackages(initial, ssa.InstantiateGenerics)
	prog.Build()
	return prog, spkgs, nil
}

type knownFile struct {
	Known []struct {
		ID       string `json:"id"`
		Property string `json:"property"`
		What     string `json:"what"`
	} `json:"known"`
	Fixed []struct {
		Property string `json:"property"`
		Commit   string `json:"commit"`
		What     string `json:"what"`
	} `json:"fixed"`
}

func loadKnown() (map[string]bool, map[string]string, map[string]string) {
	ids := map[string]bool{}
	what := map[string]string{}
	prop := map[string]string{}
	b, err := os.ReadFile(filepath.Join(verifDir, "known_findings.json"))
	if err != nil {
		return ids, what, prop
	}
	var kf knownFile
	if err := json.Unmarshal(b, &kf); err != nil {
		fmt.Fprintf(os.Stderr, "known_findings.json: %v\n", err)
		os.Exit(3)
	}
	for _, k := range kf.Known {
		ids[k.ID] = true
		what[k.ID] = k.What
		prop[k.ID] = k.Property
	}
	return ids, what, prop
}

func atoiDef(s string, d int) int {
	if s == "" {
		return d
	}
	v, err := strconv.Atoi(s)
	if err != nil {
		return d
	}
	return v
}

func main() {
	if !strings.HasPrefix(os.Getenv("PATH"), "/opt/veriftools/go1.26.8/bin:") {
		os.Setenv("PATH", "/opt/veriftools/go1.26.8/bin:"+os.Getenv("PATH"))
	}
	os.Setenv("GOTOOLCHAIN", "local")
	os.Setenv("GOPROXY", "off")
	os.Setenv("GOFLAGS", "-mod=readonly")
	if len(os.Args) < 2 {
		fmt.Fprintln(os.Stderr, "usage: gosym check|replay ...")
		os.Exit(2)
	}
	switch os.Args[1] {
	case "check":
		os.Exit(cmdCheck(os.Args[2:]))
	case "replay":
		os.Exit(cmdReplay(os.Args[2:]))
	default:
		fmt.Fprintln(os.Stderr, "unknown command")
		os.Exit(2)
	}
}

type harnessEvidence struct {
	Name        string         `json:"harness"`
	Package     string         `json:"package"`
	Paths       int            `json:"paths"`
	PathEnds    map[string]int `json:"path_ends"`
	Branches    int64          `json:"solver_decided_branches"`
	Asserts     int64          `json:"assertion_queries"`
	Discharged  int64          `json:"assertions_discharged"`
	Covers      map[string]int `json:"cover_labels"`
	Inconcl     map[string]int `json:"inconclusive,omitempty"`
	Abandoned   map[string]int `json:"abandoned_above_case_split_cap,omitempty"`
	Unsupported map[string]int `json:"unsupported,omitempty"`
	Notes       map[string]int `json:"notes,omitempty"`
	StepCapHits int            `json:"step_cap_hits"`
	Truncated   bool           `json:"path_budget_exhausted"`
	Functions   []string       `json:"functions_encoded"`
	Stubs       []string       `json:"stubs,omitempty"`
	NativeOK    int            `json:"witnesses_validated_natively"`
	NativeBad   int            `json:"witness_mismatches"`
	WallS       float64        `json:"wall_s"`
	Bounds      map[string]string `json:"bounds"`
}

func cmdCheck(args []string) int {
	fs := flag.NewFlagSet("check", flag.ExitOnError)
	prop := fs.String("prop", "", "property id")
	tier := fs.String("tier", os.Getenv("VERIF_TIER"), "quick|thorough")
	hre := fs.String("harness", "", "regex on harness names")
	verbose := fs.Bool("v", false, "verbose")
	solverKind := fs.String("solver", "z3-new", "z3|z3-new|cvc5")
	noNative := fs.Bool("no-native", false, "skip native validation")
	evOut := fs.String("evidence", "", "evidence file (default /verif/evidence/<prop>.json)")
	workers := fs.Int("workers", runtime.NumCPU(), "workers")
	maxPathsFlag := fs.Int("maxpaths", 0, "override per-harness path budget (debugging)")
	fs.Parse(args)
	if *tier == "" {
		*tier = "quick"
	}
	if *prop == "" {
		fmt.Fprintln(os.Stderr, "-prop required")
		return 2
	}
	seed := int64(atoiDef(os.Getenv("VERIF_SEED"), 1))
	t0 := time.Now()
	var re *regexp.Regexp
	if *hre != "" {
		re = regexp.MustCompile(*hre)
	}
	hs, pkgFiles := discover(*prop, re)
	if len(hs) == 0 {
		fmt.Fprintf(os.Stderr, "no harness for %s\n", *prop)
		return 3
	}
	// only overlay packages that own a selected harness... but helper files of
	// the same package must come along: include all files of those packages.
	need := map[string]bool{}
	for _, h := range hs {
		need[h.pkgPath] = true
	}
	usePkgFiles := map[string][]string{}
	var pkgList []string
	for p := range need {
		usePkgFiles[p] = pkgFiles[p]
		pkgList = append(pkgList, p)
	}
	sort.Strings(pkgList)
	overlay, repl := overlayFor(usePkgFiles, nil)
	prog, _, err := loadProgram(pkgList, overlay)
	if err != nil {
		fmt.Fprintf(os.Stderr, "HARNESS-BUILD-FAILED: %v\n", err)
		return 3
	}
	loadS := time.Since(t0).Seconds()
	known, knownWhat, _ := loadKnown()

	tierN := 0
	if *tier == "thorough" {
		tierN = 1
	}
	var evs []harnessEvidence
	var allViol []violation
	knownPrinted := map[string]bool{}
	infra := false
	totalPaths, totalBranches, totalValidated := 0, int64(0), 0
	var totalAsserts, totalDischarged int64
	var samples []interface{}
	var stubsAll = map[string]bool{}
	nativeJobs := map[string][]nativeJob{} // pkg -> jobs
	runs := map[string]*HarnessRun{}
	for _, hi := range hs {
		pkg := prog.ImportedPackage(hi.pkgPath)
		if pkg == nil {
			fmt.Fprintf(os.Stderr, "package %s not in program\n", hi.pkgPath)
			return 3
		}
		fn := pkg.Func(hi.name)
		if fn == nil {
			fmt.Fprintf(os.Stderr, "harness %s not found\n", hi.name)
			return 3
		}
		sfx := "_q"
		if tierN == 1 {
			sfx = "_t"
		}
		opt := func(k string, d int) int {
			if v, ok := hi.opts[k+sfx]; ok {
				return atoiDef(v, d)
			}
			return atoiDef(hi.opts[k], d)
		}
		cfg := &RunConfig{Solver: *solverKind, TimeoutMs: opt("timeout_ms", 20000), MaxPaths: opt("maxpaths", 200000),
			MaxSteps: int64(opt("maxsteps", 2000000)), MaxSplit: opt("maxsplit", 300), Workers: *workers, Tier: tierN,
			AllocLimit: int64(opt("alloclimit", 1<<20)), Known: known, Verbose: *verbose}
		if *maxPathsFlag > 0 {
			cfg.MaxPaths = *maxPathsFlag
		}
		h := runHarness(prog, fn, cfg)
		runs[hi.name] = h
		he := harnessEvidence{Name: hi.name, Package: hi.pkgPath, Paths: h.paths, PathEnds: h.endCounts, Branches: h.branches,
			Asserts: h.assertsAll, Discharged: h.assertsOK, Covers: h.covers, Inconcl: h.incon, Abandoned: h.aband,
			Unsupported: h.unsupp, Notes: h.notes, StepCapHits: h.stepsHit, Truncated: h.truncated, WallS: h.wall.Seconds(),
			Bounds: hi.opts}
		for f := range h.funcs {
			if strings.Contains(f, "zcrypto") || strings.Contains(f, "x/crypto") {
				he.Functions = append(he.Functions, f)
			}
		}
		sort.Strings(he.Functions)
		for s := range h.stubsUsed {
			he.Stubs = append(he.Stubs, s)
			stubsAll[s] = true
		}
		sort.Strings(he.Stubs)
		fmt.Printf("harness %-44s paths=%-6d branches=%-6d asserts=%d/%d ends=%v wall=%.1fs\n", hi.name, h.paths, h.branches, h.assertsOK, h.assertsAll, h.endCounts, h.wall.Seconds())
		if *verbose || os.Getenv("GOSYM_WHY") != "" {
			for k, v := range h.why {
				fmt.Printf("  why %-40s queries=%d sat=%d\n", k, v[0], v[1])
			}
		}
		// declared cover labels must be reachable (vacuity guard)
		if want, ok := hi.opts["covers"]; ok {
			for _, l := range strings.Split(want, ",") {
				if h.covers[l] == 0 {
					// a cover inside a known-finding class or ending in a violation is not counted; only complain if no violation explains it
					if len(h.violations) == 0 {
						fmt.Printf("VACUOUS harness=%s cover label %q unreachable\n", hi.name, l)
						infra = true
					}
				}
			}
		}
		if len(h.unsupp) > 0 {
			for k, n := range h.unsupp {
				fmt.Printf("UNSUPPORTED harness=%s x%d %s\n", hi.name, n, k)
			}
			infra = true
		}
		if len(h.incon) > 0 {
			for k, n := range h.incon {
				fmt.Printf("INCONCLUSIVE harness=%s x%d %s\n", hi.name, n, k)
			}
			infra = true
		}
		if h.stoppedOnViolation {
			fmt.Printf("STOPPED harness=%s after %d violating paths; the rest of its path space was not explored\n", hi.name, len(h.violations))
		}
		if h.truncated {
			fmt.Printf("INCOMPLETE harness=%s path budget %d exhausted\n", hi.name, cfg.MaxPaths)
			infra = true
		}
		for k, n := range h.aband {
			fmt.Printf("OUTSIDE-BOUND harness=%s x%d case split above cap at %s\n", hi.name, n, k)
		}
		for id, v := range h.knownHits {
			if !knownPrinted[id] {
				knownPrinted[id] = true
				fmt.Printf("KNOWN-FINDING: property=%s %s [%s: %s; harness %s tape %v]\n", *prop, knownWhat[id], id, v.Msg, hi.name, v.Tape)
			}
		}
		// dedupe violations by message
		seen := map[string]bool{}
		for _, v := range h.violations {
			key := v.Kind + "|" + v.Msg
			if seen[key] {
				continue
			}
			seen[key] = true
			allViol = append(allViol, v)
		}
		// native validation jobs
		if !*noNative && !h.needsEngine {
			max := 32
			if tierN == 1 {
				max = 400
			}
			picked := pickResults(h.results, max, seed)
			for _, r := range picked {
				nativeJobs[hi.pkgPath] = append(nativeJobs[hi.pkgPath], nativeJob{Harness: hi.name, Tape: r.tape, expect: r.events, end: r.end})
			}
		}
		totalPaths += h.paths
		totalBranches += h.branches
		totalAsserts += h.assertsAll
		totalDischarged += h.assertsOK
		for i, r := range h.results {
			if i >= 2 {
				break
			}
			samples = append(samples, map[string]interface{}{"harness": hi.name, "input_tape": r.tape, "labels": compactLabels(r.labels), "end": r.end, "events": r.events})
		}
		evs = append(evs, he)
	}

	// native translation validation
	mismatches := 0
	if !*noNative && len(nativeJobs) > 0 {
		for pkgPath, jobs := range nativeJobs {
			res, err := runNative(pkgPath, usePkgFiles, hs, jobs, *tier)
			if err != nil {
				fmt.Printf("NATIVE-FAILED pkg=%s: %v\n", pkgPath, err)
				infra = true
				continue
			}
			for i, j := range jobs {
				ok := compareEvents(j.expect, res[i])
				for k := range evs {
					if evs[k].Name == j.Harness {
						if ok {
							evs[k].NativeOK++
						} else {
							evs[k].NativeBad++
						}
					}
				}
				if ok {
					totalValidated++
				} else {
					mismatches++
					if mismatches <= 5 {
						fmt.Printf("ENGINE-MISMATCH harness=%s tape=%v\n  engine: %v\n  native: %v\n", j.Harness, j.Tape, j.expect, res[i])
					}
				}
			}
		}
		if mismatches > 0 {
			infra = true
		}
	}

	// confirm violations
	confirmed := 0
	for vi := range allViol {
		v := &allViol[vi]
		h := runs[v.Harness]
		dir := filepath.Join(verifDir, "replays", *prop)
		os.MkdirAll(dir, 0o755)
		path := filepath.Join(dir, fmt.Sprintf("%s_%d.json", v.Harness, vi))
		if h.needsEngine || *noNative {
			v.Confirmed = "engine-concrete"
			ok := confirmEngine(prog, h, v)
			if !ok {
				v.Confirmed = "unconfirmed"
			}
		} else {
			var pkgPath string
			for _, hi := range hs {
				if hi.name == v.Harness {
					pkgPath = hi.pkgPath
				}
			}
			res, err := runNative(pkgPath, usePkgFiles, hs, []nativeJob{{Harness: v.Harness, Tape: v.Tape}}, *tier)
			v.Confirmed = "unconfirmed"
			if err == nil && len(res) == 1 {
				for _, e := range res[0] {
					if (v.Kind == "assert" && e.Kind == "assert-fail") || (v.Kind == "panic" && e.Kind == "panic") {
						v.Confirmed = "native"
					}
				}
				if v.Kind == "alloc" || v.Kind == "steps" {
					// monitors: natively the run finishes or is killed; accept engine verdict after concrete re-run
					if confirmEngine(prog, h, v) {
						v.Confirmed = "engine-concrete"
					}
				}
			} else if err != nil {
				if v.Kind == "alloc" || v.Kind == "steps" {
					v.Confirmed = "native-abort"
				}
			}
		}
		b, _ := json.MarshalIndent(map[string]interface{}{"property": *prop, "violation": v, "tier": *tier}, "", " ")
		os.WriteFile(path, b, 0o644)
		if v.Confirmed == "unconfirmed" {
			fmt.Printf("UNCONFIRMED property=%s harness=%s %s (did not reproduce; replay=%s)\n", *prop, v.Harness, v.Msg, path)
			infra = true
			continue
		}
		confirmed++
		fmt.Printf("VIOLATION property=%s replay=%s\n", *prop, path)
		fmt.Printf("  harness=%s kind=%s %s confirmed=%s\n  tape=%v\n  stack=%s\n", v.Harness, v.Kind, v.Msg, v.Confirmed, v.Tape, v.Stack)
	}

	// evidence
	wall := time.Since(t0).Seconds()
	if len(samples) == 0 {
		samples = append(samples, "no completed paths")
	}
	var stubs []string
	for s := range stubsAll {
		stubs = append(stubs, s)
	}
	sort.Strings(stubs)
	assumptions := []string{
		"bounded: only inputs within the sizes fixed by each harness (see harnesses[].bounds and the harness source) are covered",
		"go/ssa (x/tools v0.50.0) construction, the gosym interpreter semantics and the SMT solver (" + *solverKind + ") are trusted; sampled witnesses are re-run natively and compared event by event",
		"shapes (lengths, pointers, dynamic types) are concrete per path; lengths are case-split over the stated ranges",
	}
	for _, s := range stubs {
		assumptions = append(assumptions, "callee replaced by harness model: "+s)
	}
	ev := map[string]interface{}{
		"property_id": *prop,
		"tier":        *tier,
		"seed":        seed,
		"level":       "model_checking",
		"coverage": map[string]interface{}{
			"states":                        totalPaths,
			"transitions":                   totalBranches,
			"traces_validated_against_impl": totalValidated,
			"samples":                       samples,
			"obligations":                   totalAsserts,
			"discharged":                    totalDischarged,
			"harnesses":                     evs,
			"solver":                        *solverKind,
			"solver_queries":                gStats.Queries,
			"solver_sat":                    gStats.Sat,
			"solver_unsat":                  gStats.Unsat,
			"solver_unknown":                gStats.Unknown,
			"solver_errors":                 gStats.Errors,
			"solver_seconds":                float64(gStats.Nanos) / 1e9,
			"load_and_ssa_seconds":          loadS,
			"explanation":                   "states = symbolic paths explored (each a class of inputs decided by the solver); transitions = input-dependent branch points decided by a solver query; obligations/discharged = assertion queries and those answered unsat",
		},
		"assumptions": assumptions,
		"wall_s":      wall,
		"violations":  confirmed,
	}
	evPath := *evOut
	if evPath == "" {
		evPath = filepath.Join(verifDir, "evidence", *prop+".json")
		if *hre != "" || *noNative || repoDir != "/repo" {
			// a partial or development run must not replace the evidence of the full check
			evPath = filepath.Join(os.TempDir(), "gosym-partial-evidence-"+*prop+".json")
		}
	}
	os.MkdirAll(filepath.Dir(evPath), 0o755)
	b, _ := json.MarshalIndent(ev, "", " ")
	if err := os.WriteFile(evPath, b, 0o644); err != nil {
		fmt.Fprintf(os.Stderr, "write evidence: %v\n", err)
		return 3
	}
	_ = repl
	fmt.Printf("property %s tier=%s: paths=%d branches=%d asserts=%d/%d validated=%d queries=%d (sat %d unsat %d unknown %d) solver=%.1fs wall=%.1fs\n",
		*prop, *tier, totalPaths, totalBranches, totalDischarged, totalAsserts, totalValidated, gStats.Queries, gStats.Sat, gStats.Unsat, gStats.Unknown, float64(gStats.Nanos)/1e9, wall)
	if confirmed > 0 {
		return 1
	}
	if infra {
		return 3
	}
	return 0
}

func compactLabels(ls []string) []string {
	var out []string
	prev := ""
	n := 0
	flush := func() {
		if prev == "" {
			return
		}
		if n > 1 {
			out = append(out, fmt.Sprintf("%s x%d", prev, n))
		} else {
			out = append(out, prev)
		}
	}
	for _, l := range ls {
		if l == prev {
			n++
			continue
		}
		flush()
		prev, n = l, 1
	}
	flush()
	return out
}

func pickResults(rs []pathResult, max int, seed int64) []pathResult {
	var ok []pathResult
	for _, r := range rs {
		if r.end == "ok" && !r.needsEngine {
			ok = append(ok, r)
		}
	}
	if len(ok) <= max {
		return ok
	}
	// deterministic pseudo-random sample
	s := uint64(seed)*6364136223846793005 + 1442695040888963407
	picked := make([]pathResult, 0, max)
	idx := map[int]bool{}
	for len(picked) < max {
		s = s*6364136223846793005 + 1442695040888963407
		i := int((s >> 33) % uint64(len(ok)))
		if idx[i] {
			continue
		}
		idx[i] = true
		picked = append(picked, ok[i])
	}
	return picked
}

type nativeJob struct {
	Harness string        `json:"harness"`
	Tape    []uint64      `json:"tape"`
	expect  []nativeEvent
	end     string
}

func compareEvents(a, b []nativeEvent) bool {
	// the engine records "known" events only for listed ids; drop them on both sides
	f := func(in []nativeEvent) []nativeEvent {
		var out []nativeEvent
		for _, e := range in {
			if e.Kind == "known" {
				continue
			}
			out = append(out, e)
		}
		return out
	}
	a, b = f(a), f(b)
	if len(a) != len(b) {
		return false
	}
	for i := range a {
		if a[i] != b[i] {
			return false
		}
	}
	return true
}

const replayTestTmpl = `//go:build verif

package %s

import (
	"encoding/json"
	"os"
	"testing"

	vr "github.com/zmap/zcrypto/internal/verifrt"
)

var verifHarnessTable = map[string]func(){
%s}

func TestVerifReplay(t *testing.T) {
	in := os.Getenv("VERIF_REPLAY_IN")
	if in == "" {
		t.Skip("no replay input")
	}
	b, err := os.ReadFile(in)
	if err != nil {
		t.Fatal(err)
	}
	var jobs []struct {
		Harness string   ` + "`json:\"harness\"`" + `
		Tape    []uint64 ` + "`json:\"tape\"`" + `
	}
	if err := json.Unmarshal(b, &jobs); err != nil {
		t.Fatal(err)
	}
	out := make([][]vr.Event, len(jobs))
	for i, j := range jobs {
		h := verifHarnessTable[j.Harness]
		if h == nil {
			t.Fatalf("unknown harness %%s", j.Harness)
		}
		out[i] = vr.Run(h, j.Tape)
		if out[i] == nil {
			out[i] = []vr.Event{}
		}
	}
	ob, _ := json.Marshal(out)
	if err := os.WriteFile(os.Getenv("VERIF_REPLAY_OUT"), ob, 0o644); err != nil {
		t.Fatal(err)
	}
}
`

// runNative runs jobs through the natively compiled harnesses (go test -overlay).
func runNative(pkgPath string, pkgFiles map[string][]string, hs []harnessInfo, jobs []nativeJob, tier string) ([][]nativeEvent, error) {
	tmp, err := os.MkdirTemp("", "gosym-native-")
	if err != nil {
		return nil, err
	}
	defer os.RemoveAll(tmp)
	rel := strings.TrimPrefix(strings.TrimPrefix(pkgPath, modulePath), "/")
	// package name: parse one harness file
	fset := token.NewFileSet()
	f, err := parser.ParseFile(fset, pkgFiles[pkgPath][0], nil, parser.PackageClauseOnly)
	if err != nil {
		return nil, err
	}
	// all harnesses of this package (not only selected ones) must be listed? only selected ones needed
	var tbl strings.Builder
	all, _ := discover("", nil)
	for _, hi := range all {
		if hi.pkgPath == pkgPath {
			fmt.Fprintf(&tbl, "\t%q: %s,\n", hi.name, hi.name)
		}
	}
	testSrc := fmt.Sprintf(replayTestTmpl, f.Name.Name, tbl.String())
	testFile := filepath.Join(tmp, "zz_verif_replay_test.go")
	os.WriteFile(testFile, []byte(testSrc), 0o644)
	one := map[string][]string{pkgPath: pkgFiles[pkgPath]}
	_, repl := overlayFor(one, nil)
	repl[filepath.Join(repoDir, rel, "zz_verif_replay_test.go")] = testFile
	ovb, _ := json.Marshal(map[string]interface{}{"Replace": repl})
	ovPath := filepath.Join(tmp, "overlay.json")
	os.WriteFile(ovPath, ovb, 0o644)
	inPath := filepath.Join(tmp, "in.json")
	outPath := filepath.Join(tmp, "out.json")
	jb, _ := json.Marshal(jobs)
	os.WriteFile(inPath, jb, 0o644)
	cmd := exec.Command("go", "test", "-tags", "verif", "-vet=off", "-count=1", "-overlay", ovPath, "-run", "^TestVerifReplay$", "-timeout", "20m", "./"+rel)
	cmd.Dir = repoDir
	env := goEnv()
	cmd.Env = append(env, "VERIF_REPLAY_IN="+inPath, "VERIF_REPLAY_OUT="+outPath, "VERIF_TIER="+tier)
	outb, err := cmd.CombinedOutput()
	if err != nil {
		return nil, fmt.Errorf("go test: %v\n%s", err, tail(string(outb), 3000))
	}
	ob, err := os.ReadFile(outPath)
	if err != nil {
		return nil, fmt.Errorf("no replay output: %v\n%s", err, tail(string(outb), 2000))
	}
	var res [][]nativeEvent
	if err := json.Unmarshal(ob, &res); err != nil {
		return nil, err
	}
	if len(res) != len(jobs) {
		return nil, fmt.Errorf("replay result count mismatch")
	}
	return res, nil
}

func tail(s string, n int) string {
	if len(s) <= n {
		return s
	}
	return s[len(s)-n:]
}

// confirmEngine re-runs the harness in the engine with the tape as concrete inputs.
func confirmEngine(prog *ssa.Program, h *HarnessRun, v *violation) bool {
	cfg := *h.cfg
	cfg.Workers = 1
	cfg.Verbose = false
	cfg.ConcreteTape = v.Tape
	cfg.Known = map[string]bool{}
	h2 := runHarness(prog, h.fn, &cfg)
	for _, v2 := range h2.violations {
		if v2.Kind == v.Kind {
			return true
		}
	}
	return false
}

func cmdReplay(args []string) int {
	if len(args) < 1 {
		fmt.Fprintln(os.Stderr, "usage: gosym replay <file>")
		return 2
	}
	b, err := os.ReadFile(args[0])
	if err != nil {
		fmt.Fprintln(os.Stderr, err)
		return 2
	}
	var rf struct {
		Property  string    `json:"property"`
		Violation violation `json:"violation"`
		Tier      string    `json:"tier"`
	}
	if err := json.Unmarshal(b, &rf); err != nil {
		fmt.Fprintln(os.Stderr, err)
		return 2
	}
	hs, pkgFiles := discover(rf.Property, regexp.MustCompile("^"+regexp.QuoteMeta(rf.Violation.Harness)+"$"))
	if len(hs) != 1 {
		fmt.Fprintln(os.Stderr, "harness not found")
		return 3
	}
	use := map[string][]string{hs[0].pkgPath: pkgFiles[hs[0].pkgPath]}
	res, err := runNative(hs[0].pkgPath, use, hs, []nativeJob{{Harness: rf.Violation.Harness, Tape: rf.Violation.Tape}}, rf.Tier)
	if err != nil {
		fmt.Println("native replay failed:", err)
		return 3
	}
	fmt.Printf("native events: %v\n", res[0])
	for _, e := range res[0] {
		if e.Kind == "assert-fail" || e.Kind == "panic" {
			fmt.Printf("REPRODUCED %s %s %s\n", e.Kind, e.Label, e.Val)
			return 1
		}
	}
	fmt.Println("not reproduced natively")
	return 0
}
