package main

// More intrinsics (kept in a separate file).

import (
	"golang.org/x/tools/go/ssa"
)

func boolToInt(t *Term, w int) *Term { return mkIte(t, mkBV(w, 1), mkBV(w, 0)) }

func init() {
	I := intrinsics
	I["crypto/internal/constanttime.boolToUint8"] = func(x *Exec, c *frame, fn *ssa.Function, a []Value) Value {
		return boolToInt(termOf(a[0]), 8)
	}
	ctCompare := func(x *Exec, c *frame, fn *ssa.Function, a []Value) Value {
		return boolToInt(bytesEq(sliceTerms(a[0].(Slice)), sliceTerms(a[1].(Slice))), 64)
	}
	I["crypto/subtle.ConstantTimeCompare"] = ctCompare
	I["crypto/internal/fips140/subtle.ConstantTimeCompare"] = ctCompare
	xorBytes := func(x *Exec, c *frame, fn *ssa.Function, a []Value) Value {
		dst, p, q := a[0].(Slice), a[1].(Slice), a[2].(Slice)
		n := p.len
		if q.len < n {
			n = q.len
		}
		if dst.len < n {
			panic(&goPanic{msg: "subtle.XORBytes: dst too short", runtime: true})
		}
		for i := 0; i < n; i++ {
			dst.set(i, bvBin(OpBXor, termOf(p.get(i)), termOf(q.get(i))))
		}
		return mkBV(64, uint64(n))
	}
	I["crypto/subtle.XORBytes"] = xorBytes
	I["crypto/internal/fips140/subtle.XORBytes"] = xorBytes

	// branch-free helpers of the harness runtime
	I[vrPkg+"And"] = func(x *Exec, c *frame, fn *ssa.Function, a []Value) Value { return mkAnd(termOf(a[0]), termOf(a[1])) }
	I[vrPkg+"Or"] = func(x *Exec, c *frame, fn *ssa.Function, a []Value) Value { return mkOr(termOf(a[0]), termOf(a[1])) }
	ite := func(x *Exec, c *frame, fn *ssa.Function, a []Value) Value {
		return mkIte(termOf(a[0]), termOf(a[1]), termOf(a[2]))
	}
	I[vrPkg+"IteInt"] = ite
	I[vrPkg+"IteU64"] = ite
	I[vrPkg+"IteU8"] = ite
	I[vrPkg+"IteBool"] = ite
	I[vrPkg+"BytesEq"] = func(x *Exec, c *frame, fn *ssa.Function, a []Value) Value {
		return bytesEq(sliceTerms(a[0].(Slice)), sliceTerms(a[1].(Slice)))
	}
	I[vrPkg+"StrEq"] = func(x *Exec, c *frame, fn *ssa.Function, a []Value) Value {
		return x.strEq(a[0].(*Str), a[1].(*Str))
	}
}

func init() {
	// vr.Pick(x): case-split x into its feasible concrete values
	intrinsics[vrPkg+"Pick"] = func(x *Exec, c *frame, fn *ssa.Function, a []Value) Value {
		t := termOf(a[0])
		return mkBV(t.w, x.ps.concretize(t, "Pick"))
	}
}
