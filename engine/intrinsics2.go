package main

// More intrinsics (kept in a separate file).

import (
	"golang.org/x/tools/go/ssa"
)

func boolToInt(t *Term, w int) *Term { return mkIte(t, mkBV(w, 1), mkBV(w, 0)) }

func init() {
	I := intrinsics
	I["crypto/internal/constanttime.boolToUint8"] = func(x *Exec, c *frame, fn *ssa.Function, a []Value) Value {
		return boolToInt(termOf(a[0]), 8)
	}
	ctCompare := func(x *Exec, c *frame, fn *ssa.Function, a []Value) Value {
		return boolToInt(bytesEq(sliceTerms(a[0].(Slice)), sliceTerms(a[1].(Slice))), 64)
	}
	I["crypto/subtle.ConstantTimeCompare"] = ctCompare
	I["crypto/internal/fips140/subtle.ConstantTimeCompare"] = ctCompare
	xorBytes := func(x *Exec, c *frame, fn *ssa.Function, a []Value) Value {
		dst, p, q := a[0].(Slice), a[1].(Slice), a[2].(Slice)
		n := p.len
		if q.len < n {
			n = q.len
		}
		if dst.len < n {
			panic(&goPanic{msg: "subtle.XORBytes: dst too short", runtime: true})
		}
		for i := 0; i < n; i++ {
			dst.set(i, bvBin(OpBXor, termOf(p.get(i)), termOf(q.get(i))))
		}
		return mkBV(64, uint64(n))
	}
	I["crypto/subtle.XORBytes"] = xorBytes
	I["crypto/internal/fips140/subtle.XORBytes"] = xorBytes

	// branch-free helpers of the harness runtime
	I[vrPkg+"And"] = func(x *Exec, c *frame, fn *ssa.Function, a []Value) Value { return mkAnd(termOf(a[0]), termOf(a[1])) }
	I[vrPkg+"Or"] = func(x *Exec, c *frame, fn *ssa.Function, a []Value) Value { return mkOr(termOf(a[0]), termOf(a[1])) }
	ite := func(x *Exec, c *frame, fn *ssa.Function, a []Value) Value {
		return mkIte(termOf(a[0]), termOf(a[1]), termOf(a[2]))
	}
	I[vrPkg+"IteInt"] = ite
	I[vrPkg+"IteU64"] = ite
	I[vrPkg+"IteU8"] = ite
	I[vrPkg+"IteBool"] = ite
	I[vrPkg+"BytesEq"] = func(x *Exec, c *frame, fn *ssa.Function, a []Value) Value {
		return bytesEq(sliceTerms(a[0].(Slice)), sliceTerms(a[1].(Slice)))
	}
	I[vrPkg+"StrEq"] = func(x *Exec, c *frame, fn *ssa.Function, a []Value) Value {
		return x.strEq(a[0].(*Str), a[1].(*Str))
	}
}

func init() {
	// vr.Pick(x): case-split x into its feasible concrete values
	intrinsics[vrPkg+"Pick"] = func(x *Exec, c *frame, fn *ssa.Function, a []Value) Value {
		t := termOf(a[0])
		return mkBV(t.w, x.ps.concretize(t, "Pick"))
	}
}

// time.Time comparisons as single terms (pure stdlib callees summarised so that
// they do not fork the path): mirrors time.Time.Before/After/Equal exactly.
func timeParts(v Value) (wall, ext *Term) {
	a := v.(*Agg)
	return termOf(a.e[0]), termOf(a.e[1])
}

func timeSecNsec(wall, ext *Term) (sec, nsec *Term) {
	const hasMonotonic = uint64(1) << 63
	const nsecShift = 30
	const wallToInternal int64 = (1884*365 + 1884/4 - 1884/100 + 1884/400) * 86400
	mono := mkNot(mkEq(bvBin(OpBAnd, wall, mkBV(64, hasMonotonic)), mkBV(64, 0)))
	wsec := bvBin(OpAdd, mkBV(64, uint64(wallToInternal)), bvBin(OpLShr, bvBin(OpShl, wall, mkBV(64, 1)), mkBV(64, nsecShift+1)))
	sec = mkIte(mono, wsec, ext)
	nsec = bvBin(OpBAnd, wall, mkBV(64, (1<<nsecShift)-1))
	return
}

func timeCmp(a, b Value) (lt, eq *Term) {
	const hasMonotonic = uint64(1) << 63
	aw, ae := timeParts(a)
	bw, be := timeParts(b)
	bothMono := mkNot(mkEq(bvBin(OpBAnd, bvBin(OpBAnd, aw, bw), mkBV(64, hasMonotonic)), mkBV(64, 0)))
	as, an := timeSecNsec(aw, ae)
	bs, bn := timeSecNsec(bw, be)
	ltW := mkOr(mkCmp(OpSlt, as, bs), mkAnd(mkEq(as, bs), mkCmp(OpUlt, an, bn)))
	eqW := mkAnd(mkEq(as, bs), mkEq(an, bn))
	lt = mkIte(bothMono, mkCmp(OpSlt, ae, be), ltW)
	eq = mkIte(bothMono, mkEq(ae, be), eqW)
	return
}

func init() {
	intrinsics["(time.Time).Before"] = func(x *Exec, c *frame, fn *ssa.Function, a []Value) Value {
		lt, _ := timeCmp(a[0], a[1])
		return lt
	}
	intrinsics["(time.Time).After"] = func(x *Exec, c *frame, fn *ssa.Function, a []Value) Value {
		lt, _ := timeCmp(a[1], a[0])
		return lt
	}
	intrinsics["(time.Time).Equal"] = func(x *Exec, c *frame, fn *ssa.Function, a []Value) Value {
		_, eq := timeCmp(a[0], a[1])
		return eq
	}
}
