package main

// Generational concolic exploration: each path is re-executed from the start
// following a recorded decision prefix; new input-dependent branches are decided
// by the witness model, and one solver query asks for the other side.

import (
	"encoding/binary"
	"fmt"
	"hash/fnv"
	"math/big"
	"os"
	"sort"
	"strings"
	"sync"
	"time"

	"golang.org/x/tools/go/ssa"
)

type decision struct {
	taken  bool
	hasVal bool
	val    uint64
	cmp    int8 // value decisions not taken: -1 restricts to t <u val, +1 to t >u val (0: t != val)
}

type workItem struct {
	prefix  []decision
	witness Model
}

type inputRec struct {
	label string
	t     *Term
}

type event struct {
	Kind  string
	Label string
	term  *Term   // obs of scalar
	bytes []*Term // obs of bytes
	isBytes bool
}

type violation struct {
	Harness string   `json:"harness"`
	Kind    string   `json:"kind"` // assert, panic, alloc, steps
	Msg     string   `json:"msg"`
	Stack   string   `json:"stack,omitempty"`
	Tape    []uint64 `json:"tape"`
	Labels  []string `json:"labels,omitempty"`
	Known   string   `json:"known,omitempty"`
	Events  []nativeEvent `json:"events,omitempty"`
	Confirmed string `json:"confirmed,omitempty"`
}

type nativeEvent struct {
	Kind  string `json:"kind"`
	Label string `json:"label,omitempty"`
	Val   string `json:"val,omitempty"`
}

type pathResult struct {
	tape      []uint64
	labels    []string
	events    []nativeEvent
	end       string // ok, assume, violation, unsupported, steps, known
	needsEngine bool
}

type PathState struct {
	h        *HarnessRun
	solver   *Solver
	prefix   []decision
	pos      int
	trace    []decision
	witness  Model
	ev       *evalCtx
	inputs   []inputRec
	vars     []*Term
	events   []event
	seq      int
	newWork  []workItem
	nPublished int
	known    string // inside a known-finding class
	asserts  int
	notes    []string
	nDecide  int
	usedStub bool
	initMode bool
}

func (ps *PathState) note(s string) {
	for _, n := range ps.notes {
		if n == s {
			return
		}
	}
	ps.notes = append(ps.notes, s)
}

func (ps *PathState) evalBool(t *Term) bool {
	return ps.ev.eval(t).k == 1
}

func (ps *PathState) setWitness(m Model) {
	ps.witness = m
	ps.ev = newEval(m)
}

func (ps *PathState) fresh(label string, w int) *Term {
	ps.seq++
	t := mkVar(fmt.Sprintf("%s!%d", label, ps.seq), w)
	ps.vars = append(ps.vars, t)
	return t
}

// input creates a tape-backed symbolic input.
func (ps *PathState) input(label string, w int) *Term {
	if ct := ps.h.cfg.ConcreteTape; ct != nil {
		var v uint64
		if len(ps.inputs) < len(ct) {
			v = ct[len(ps.inputs)]
		}
		t := mkBV(w, v)
		ps.inputs = append(ps.inputs, inputRec{label: label, t: t})
		return t
	}
	t := ps.fresh(label, w)
	ps.inputs = append(ps.inputs, inputRec{label: label, t: t})
	return t
}

func (ps *PathState) freshBool(label string) *Term {
	// free choice: not on the tape (engine-only nondeterminism)
	return ps.fresh(label, WBool)
}

// decide forks on c.
func (ps *PathState) decide(c *Term, why string) bool {
	if c.isConst() {
		return c.k == 1
	}
	if ps.initMode {
		panic(unsupported{"symbolic branch in package init"})
	}
	ps.nDecide++
	if ps.pos < len(ps.prefix) {
		d := ps.prefix[ps.pos]
		ps.pos++
		ps.trace = append(ps.trace, d)
		if d.taken {
			ps.solver.Assert(c)
		} else {
			ps.solver.Assert(mkNot(c))
		}
		return d.taken
	}
	v := ps.evalBool(c)
	other := c
	if v {
		other = mkNot(c)
	}
	ps.h.countBranch()
	ps.solver.Push()
	ps.solver.Assert(other)
	r := ps.solver.Check()
	ps.h.whyStat(why, r == "sat")
	if r == "sat" {
		m := ps.solver.GetModel(ps.vars)
		np := make([]decision, len(ps.trace)+1)
		copy(np, ps.trace)
		np[len(ps.trace)] = decision{taken: !v}
		ps.publish(workItem{prefix: np, witness: m})
	} else if r == "unknown" {
		ps.h.inconclusive("branch feasibility unknown at " + why)
	}
	ps.solver.Pop()
	if v {
		ps.solver.Assert(c)
	} else {
		ps.solver.Assert(mkNot(c))
	}
	ps.trace = append(ps.trace, decision{taken: v})
	return v
}

// concretize case-splits a term over its feasible values.
func (ps *PathState) concretize(t *Term, why string) uint64 {
	if t.isConst() {
		return t.k
	}
	if ps.initMode {
		panic(unsupported{"symbolic value in package init"})
	}
	tried := 0
	for {
		var v uint64
		if ps.pos < len(ps.prefix) {
			d := ps.prefix[ps.pos]
			if !d.hasVal {
				panic(fmt.Sprintf("replay divergence: expected value decision at %d (%s)", ps.pos, why))
			}
			v = d.val
			ps.pos++
			ps.trace = append(ps.trace, d)
			eq := mkEq(t, mkBV(t.w, v))
			if d.taken {
				ps.solver.Assert(eq)
				return v
			}
			switch d.cmp {
			case -1:
				ps.solver.Assert(mkCmp(OpUlt, t, mkBV(t.w, v)))
			case 1:
				ps.solver.Assert(mkCmp(OpUlt, mkBV(t.w, v), t))
			default:
				ps.solver.Assert(mkNot(eq))
			}
			tried++
			continue
		}
		if ps.h.splitOver(ps.trace, ps.h.cfg.MaxSplit) {
			ps.h.abandoned(why)
			panic(pathEnd{"case-split cap"})
		}
		v = ps.ev.eval(t).k
		eq := mkEq(t, mkBV(t.w, v))
		ps.h.countBranch()
		ps.nDecide++
		// the other values are handed out as two independent halves (below / above v),
		// so a wide split fans out over the workers instead of forming a chain
		for _, side := range []int8{-1, 1} {
			ps.solver.Push()
			if side < 0 {
				ps.solver.Assert(mkCmp(OpUlt, t, mkBV(t.w, v)))
			} else {
				ps.solver.Assert(mkCmp(OpUlt, mkBV(t.w, v), t))
			}
			r := ps.solver.Check()
			ps.h.whyStat("split:"+why, r == "sat")
			if r == "sat" {
				m := ps.solver.GetModel(ps.vars)
				np := make([]decision, len(ps.trace)+1)
				copy(np, ps.trace)
				np[len(ps.trace)] = decision{taken: false, hasVal: true, val: v, cmp: side}
				ps.publish(workItem{prefix: np, witness: m})
			} else if r == "unknown" {
				ps.h.inconclusive("case split unknown at " + why)
			}
			ps.solver.Pop()
		}
		ps.solver.Assert(eq)
		ps.trace = append(ps.trace, decision{taken: true, hasVal: true, val: v})
		return v
	}
}

// splitOver counts the values taken at one case-split site (identified by the
// decisions leading to it) across all paths and reports when the cap is exceeded.
func (h *HarnessRun) splitOver(trace []decision, max int) bool {
	n := len(trace)
	for n > 0 && trace[n-1].hasVal && !trace[n-1].taken {
		n--
	}
	hsh := fnv.New64a()
	var b [10]byte
	for _, d := range trace[:n] {
		b[0] = 0
		if d.taken {
			b[0] |= 1
		}
		if d.hasVal {
			b[0] |= 2
		}
		b[1] = byte(d.cmp)
		binary.LittleEndian.PutUint64(b[2:], d.val)
		hsh.Write(b[:])
	}
	key := hsh.Sum64() ^ uint64(n)<<48
	h.mu.Lock()
	defer h.mu.Unlock()
	if h.splitCount == nil {
		h.splitCount = map[uint64]int{}
	}
	h.splitCount[key]++
	return h.splitCount[key] > max
}

// publish hands a sibling path to the shared queue at once (not at the end of the
// current path), so wide case splits spread over the workers.
func (ps *PathState) publish(it workItem) {
	h := ps.h
	h.mu.Lock()
	if !h.truncated && !h.stoppedOnViolation {
		h.queue = append(h.queue, it)
	}
	h.mu.Unlock()
	h.cond.Broadcast()
	ps.nPublished++
}

// assume restricts the path to c; ends it quietly if infeasible.
func (ps *PathState) assume(c *Term) {
	if c.isConst() {
		if c.k == 0 {
			panic(pathEnd{"assume false"})
		}
		return
	}
	if ps.pos < len(ps.prefix) {
		// still replaying: the queued witness already satisfies it
		ps.solver.Assert(c)
		return
	}
	ps.solver.Assert(c)
	if ps.evalBool(c) {
		return
	}
	r := ps.solver.Check()
	switch r {
	case "sat":
		ps.setWitness(ps.solver.GetModel(ps.vars))
	case "unsat":
		panic(pathEnd{"assume infeasible"})
	default:
		ps.h.inconclusive("assume unknown")
		panic(pathEnd{"assume unknown"})
	}
}

// ---- harness-level run ----

type RunConfig struct {
	Solver      string
	TimeoutMs   int
	MaxPaths    int
	MaxSteps    int64
	MaxSplit    int
	Workers     int
	Tier        int
	AllocLimit  int64
	Known       map[string]bool
	Verbose     bool
	SecondSolver string
	ConcreteTape []uint64
}

type HarnessRun struct {
	name   string
	fn     *ssa.Function
	prog   *ssa.Program
	cfg    *RunConfig

	mu         sync.Mutex
	queue      []workItem
	active     int
	cond       *sync.Cond
	paths      int
	branches   int64
	assertsOK  int64
	assertsAll int64
	covers     map[string]int
	incon      map[string]int
	aband      map[string]int
	unsupp     map[string]int
	notes      map[string]int
	violations []violation
	knownHits  map[string]*violation
	results    []pathResult
	stepsHit   int
	truncated  bool
	stoppedOnViolation bool
	splitCount map[uint64]int
	funcs      map[string]bool
	endCounts  map[string]int
	needsEngine bool
	stubsUsed  map[string]bool
	wall       time.Duration
	why        map[string][2]int
}

func (h *HarnessRun) countBranch() {
	h.mu.Lock()
	h.branches++
	h.mu.Unlock()
}

func (h *HarnessRun) whyStat(why string, sat bool) {
	h.mu.Lock()
	if h.why == nil {
		h.why = map[string][2]int{}
	}
	v := h.why[why]
	v[0]++
	if sat {
		v[1]++
	}
	h.why[why] = v
	h.mu.Unlock()
}

func (h *HarnessRun) inconclusive(s string) {
	h.mu.Lock()
	h.incon[s]++
	h.mu.Unlock()
}

func (h *HarnessRun) abandoned(s string) {
	h.mu.Lock()
	h.aband[s]++
	h.mu.Unlock()
}

// maxViolatingPaths stops a harness once this many violating paths are recorded.
const maxViolatingPaths = 12

func runHarness(prog *ssa.Program, fn *ssa.Function, cfg *RunConfig) *HarnessRun {
	h := &HarnessRun{name: fn.Name(), fn: fn, prog: prog, cfg: cfg,
		covers: map[string]int{}, incon: map[string]int{}, aband: map[string]int{},
		unsupp: map[string]int{}, notes: map[string]int{}, knownHits: map[string]*violation{},
		funcs: map[string]bool{}, endCounts: map[string]int{}, stubsUsed: map[string]bool{}}
	h.cond = sync.NewCond(&h.mu)
	h.queue = []workItem{{prefix: nil, witness: Model{}}}
	t0 := time.Now()
	var wg sync.WaitGroup
	for w := 0; w < cfg.Workers; w++ {
		wg.Add(1)
		go func() {
			defer wg.Done()
			var solver *Solver
			defer func() {
				if solver != nil {
					solver.Close()
				}
			}()
			for {
				h.mu.Lock()
				for len(h.queue) == 0 && h.active > 0 {
					h.cond.Wait()
				}
				if len(h.queue) == 0 {
					h.mu.Unlock()
					h.cond.Broadcast()
					return
				}
				if len(h.violations) >= maxViolatingPaths {
					// enough counterexamples: a broken tree often explodes after the
					// failing check, and the verdict does not need the rest
					h.stoppedOnViolation = true
					h.queue = nil
					h.mu.Unlock()
					h.cond.Broadcast()
					return
				}
				if h.paths >= cfg.MaxPaths {
					h.truncated = true
					h.queue = nil
					h.mu.Unlock()
					h.cond.Broadcast()
					return
				}
				// depth-first: take the most recently queued
				it := h.queue[len(h.queue)-1]
				h.queue = h.queue[:len(h.queue)-1]
				h.active++
				h.paths++
				h.mu.Unlock()
				if solver == nil {
					solver = NewSolver(cfg.Solver, cfg.TimeoutMs)
				}
				nw := h.runPath(solver, it)
				h.mu.Lock()
				h.queue = append(h.queue, nw...)
				h.active--
				h.mu.Unlock()
				h.cond.Broadcast()
			}
		}()
	}
	wg.Wait()
	h.wall = time.Since(t0)
	return h
}

func (h *HarnessRun) runPath(solver *Solver, it workItem) (newWork []workItem) {
	solver.Reset()
	ps := &PathState{h: h, solver: solver, prefix: it.prefix}
	ps.setWitness(it.witness)
	x := &Exec{prog: h.prog, ps: ps, cfg: h.cfg, globals: map[*ssa.Global]*Obj{}, initDone: map[*ssa.Package]bool{},
		maxSteps: h.cfg.MaxSteps, stubs: map[string]Value{}, ufApps: map[string][]*ufApp{}, funcsHit: map[*ssa.Function]bool{},
		allocLimit: h.cfg.AllocLimit}
	end := "ok"
	var viol *violation
	func() {
		defer func() {
			r := recover()
			if r == nil {
				return
			}
			switch e := r.(type) {
			case pathEnd:
				end = "assume"
				if strings.HasPrefix(e.why, "violation") {
					end = "violation"
				}
				if e.why == "case-split cap" {
					end = "abandoned"
				}
			case unsupported:
				end = "unsupported"
				h.mu.Lock()
				h.unsupp[e.msg]++
				h.mu.Unlock()
			case stepLimit:
				end = "steps"
				viol = &violation{Kind: "steps", Msg: fmt.Sprintf("step budget %d exceeded (possible non-termination)", h.cfg.MaxSteps)}
			case *goPanic:
				end = "violation"
				kind := "panic"
				if strings.HasPrefix(e.msg, "ALLOC-MONITOR") {
					kind = "alloc"
				}
				viol = &violation{Kind: kind, Msg: "panic: " + e.String(), Stack: e.stack}
			case *violation:
				end = "violation"
				viol = e
			default:
				panic(r)
			}
		}()
		if h.fn.Pkg != nil && !x.isSnapshot {
			// as in a native run, the harness package (and so its imports) is
			// initialised before the harness body executes
			snap := getSnapshot(x.prog, x.cfg)
			snap.mu.Lock()
			snap.x.ensureInit(h.fn.Pkg)
			snap.mu.Unlock()
		}
		x.callFunction(h.fn, nil, nil, nil)
	}()
	// collect
	tape := make([]uint64, len(ps.inputs))
	labels := make([]string, len(ps.inputs))
	for i, in := range ps.inputs {
		tape[i] = ps.ev.eval(in.t).k
		labels[i] = in.label
	}
	var nev []nativeEvent
	for _, e := range ps.events {
		ne := nativeEvent{Kind: e.Kind, Label: e.Label}
		if e.Kind == "obs" {
			if e.isBytes {
				var sb strings.Builder
				for _, b := range e.bytes {
					fmt.Fprintf(&sb, "%02x", ps.ev.eval(b).k)
				}
				ne.Val = sb.String()
			} else {
				ne.Val = fmt.Sprintf("%d", ps.ev.eval(e.term).k)
			}
		}
		nev = append(nev, ne)
	}
	h.mu.Lock()
	defer h.mu.Unlock()
	for f := range x.funcsHit {
		h.funcs[f.String()] = true
	}
	for k := range x.stubs {
		h.stubsUsed[k] = true
	}
	for _, n := range ps.notes {
		h.notes[n]++
	}
	if ps.usedStub {
		h.needsEngine = true
	}
	if viol != nil {
		viol.Harness = h.name
		viol.Tape = tape
		viol.Labels = labels
		viol.Events = nev
		if ps.known != "" {
			viol.Known = ps.known
			end = "known"
			if _, have := h.knownHits[ps.known]; !have {
				h.knownHits[ps.known] = viol
			}
		} else {
			h.violations = append(h.violations, *viol)
		}
	}
	if end == "steps" {
		h.stepsHit++
	}
	h.endCounts[end]++
	if end == "ok" || end == "violation" || end == "known" {
		if end == "ok" {
			for _, e := range ps.events {
				if e.Kind == "cover" {
					h.covers[e.Label]++
				}
			}
		}
		if len(h.results) < 20000 {
			h.results = append(h.results, pathResult{tape: tape, labels: labels, events: nev, end: end, needsEngine: ps.usedStub})
		}
	}
	if h.cfg.Verbose {
		fmt.Fprintf(os.Stderr, "[%s] path %d end=%s decisions=%d steps=%d new=%d\n", h.name, h.paths, end, ps.nDecide, x.steps, ps.nPublished)
	}
	return ps.newWork
}

// assertCheck is vr.Assert.
func (x *Exec) assertCheck(c *Term, msg string) {
	ps := x.ps
	h := ps.h
	h.mu.Lock()
	h.assertsAll++
	h.mu.Unlock()
	if c.isConst() {
		if c.k == 1 {
			h.mu.Lock()
			h.assertsOK++
			h.mu.Unlock()
			return
		}
		panic(&violation{Kind: "assert", Msg: "assertion failed: " + msg})
	}
	if ps.pos >= len(ps.prefix) && !ps.evalBool(c) {
		panic(&violation{Kind: "assert", Msg: "assertion failed: " + msg})
	}
	if ps.pos < len(ps.prefix) {
		// replaying: this assertion was already decided on the parent path
		ps.solver.Assert(c)
		h.mu.Lock()
		h.assertsAll--
		h.mu.Unlock()
		return
	}
	ps.solver.Push()
	ps.solver.Assert(mkNot(c))
	r := ps.solver.Check()
	if r == "sat" {
		m := ps.solver.GetModel(ps.vars)
		ps.solver.Pop()
		ps.setWitness(m)
		panic(&violation{Kind: "assert", Msg: "assertion failed: " + msg})
	}
	ps.solver.Pop()
	if r == "unknown" {
		h.inconclusive("assertion unknown: " + msg)
	} else {
		h.mu.Lock()
		h.assertsOK++
		h.mu.Unlock()
	}
	ps.solver.Assert(c)
}

func sortedKeys(m map[string]int) []string {
	var ks []string
	for k := range m {
		ks = append(ks, k)
	}
	sort.Strings(ks)
	return ks
}

var _ = big.NewInt
