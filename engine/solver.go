package main

// A long-lived SMT solver process driven over a pipe (SMT-LIB2).

import (
	"bufio"
	"fmt"
	"io"
	"math/big"
	"os"
	"os/exec"
	"strings"
	"sync/atomic"
	"time"
)

type SolverStats struct {
	Queries, Sat, Unsat, Unknown, Errors int64
	Nanos                                int64
}

var gStats SolverStats

type Solver struct {
	kind    string // z3, z3-new, cvc5
	cmd     *exec.Cmd
	in      io.WriteCloser
	out     *bufio.Reader
	p       *printer
	timeout int // ms per query
	log     io.Writer
	dead    bool
}

func solverArgs(kind string, timeoutMs int) (string, []string) {
	switch kind {
	case "z3":
		return "/usr/bin/z3", []string{"-in", fmt.Sprintf("-t:%d", timeoutMs)}
	case "z3-new":
		return "z3-new", []string{"-in", fmt.Sprintf("-t:%d", timeoutMs)}
	case "cvc5":
		return "cvc5", []string{"--incremental", "--lang=smt2", "--produce-models", fmt.Sprintf("--tlimit-per=%d", timeoutMs)}
	}
	panic("unknown solver " + kind)
}

func NewSolver(kind string, timeoutMs int) *Solver {
	s := &Solver{kind: kind, timeout: timeoutMs}
	if d := os.Getenv("GOSYM_SMTLOG"); d != "" {
		f, err := os.CreateTemp(d, "smt-*.smt2")
		if err == nil {
			s.log = f
		}
	}
	s.start()
	return s
}

func (s *Solver) start() {
	bin, args := solverArgs(s.kind, s.timeout)
	s.cmd = exec.Command(bin, args...)
	var err error
	s.in, err = s.cmd.StdinPipe()
	if err != nil {
		panic(err)
	}
	so, err := s.cmd.StdoutPipe()
	if err != nil {
		panic(err)
	}
	s.cmd.Stderr = os.Stderr
	if err := s.cmd.Start(); err != nil {
		panic(err)
	}
	s.out = bufio.NewReaderSize(so, 1<<16)
	s.p = newPrinter()
	s.dead = false
	s.preamble()
}

func (s *Solver) preamble() {
	if s.kind == "cvc5" {
		s.send("(set-logic ALL)\n")
	}
	s.send("(set-option :produce-models true)\n")
}

func (s *Solver) Close() {
	if s.cmd != nil {
		s.in.Close()
		s.cmd.Process.Kill()
		s.cmd.Wait()
		s.cmd = nil
	}
}

func (s *Solver) send(str string) {
	if s.log != nil {
		io.WriteString(s.log, str)
	}
	if _, err := io.WriteString(s.in, str); err != nil {
		s.dead = true
	}
}

func (s *Solver) flushDefs() {
	if s.p.out.Len() > 0 {
		s.send(s.p.out.String())
		s.p.out.Reset()
	}
}

func (s *Solver) Reset() {
	if s.dead {
		s.Close()
		s.start()
		return
	}
	s.send("(reset)\n")
	s.p = newPrinter()
	s.preamble()
}

func (s *Solver) Push() {
	s.p.push()
	s.send("(push 1)\n")
}

func (s *Solver) Pop() {
	s.p.pop()
	s.send("(pop 1)\n")
}

func (s *Solver) Assert(t *Term) {
	if t.isTrue() {
		return
	}
	r := s.p.ref(t)
	s.flushDefs()
	s.send("(assert " + r + ")\n")
}

func (s *Solver) readLine() string {
	line, err := s.out.ReadString('\n')
	if err != nil {
		s.dead = true
		return "(error \"solver died\")"
	}
	return strings.TrimSpace(line)
}

// Check returns "sat", "unsat" or "unknown" (errors and timeouts map to unknown).
func (s *Solver) Check() string {
	t0 := time.Now()
	s.send("(check-sat)\n")
	res := "unknown"
	for {
		line := s.readLine()
		if line == "" {
			continue
		}
		if line == "sat" || line == "unsat" || line == "unknown" {
			res = line
			break
		}
		if strings.HasPrefix(line, "(error") {
			atomic.AddInt64(&gStats.Errors, 1)
			fmt.Fprintf(os.Stderr, "solver error: %s\n", line)
			if s.dead {
				break
			}
			// keep reading: an answer still follows, but it is not trusted
			for {
				l2 := s.readLine()
				if l2 == "sat" || l2 == "unsat" || l2 == "unknown" || s.dead {
					break
				}
			}
			res = "unknown"
			break
		}
		if line == "timeout" {
			res = "unknown"
			break
		}
	}
	atomic.AddInt64(&gStats.Queries, 1)
	atomic.AddInt64(&gStats.Nanos, int64(time.Since(t0)))
	switch res {
	case "sat":
		atomic.AddInt64(&gStats.Sat, 1)
	case "unsat":
		atomic.AddInt64(&gStats.Unsat, 1)
	default:
		atomic.AddInt64(&gStats.Unknown, 1)
	}
	return res
}

// GetModel fetches values for the given variables after a sat answer.
func (s *Solver) GetModel(vars []*Term) Model {
	m := Model{}
	if len(vars) == 0 {
		return m
	}
	const chunk = 400
	for i := 0; i < len(vars); i += chunk {
		j := i + chunk
		if j > len(vars) {
			j = len(vars)
		}
		var sb strings.Builder
		sb.WriteString("(get-value (")
		for _, v := range vars[i:j] {
			sb.WriteString(s.p.ref(v))
			sb.WriteString(" ")
		}
		sb.WriteString("))\n")
		s.flushDefs()
		s.send(sb.String())
		txt := s.readSexp()
		parseModel(txt, m)
	}
	return m
}

// readSexp reads one balanced s-expression from the solver.
func (s *Solver) readSexp() string {
	var sb strings.Builder
	depth := 0
	started := false
	inBar := false
	inStr := false
	for {
		c, err := s.out.ReadByte()
		if err != nil {
			s.dead = true
			return sb.String()
		}
		sb.WriteByte(c)
		switch {
		case inBar:
			if c == '|' {
				inBar = false
			}
		case inStr:
			if c == '"' {
				inStr = false
			}
		case c == '|':
			inBar = true
		case c == '"':
			inStr = true
		case c == '(':
			depth++
			started = true
		case c == ')':
			depth--
		}
		if started && depth == 0 {
			return sb.String()
		}
	}
}

// parseModel parses ((name value) ...) into m.
func parseModel(txt string, m Model) {
	toks := tokenize(txt)
	// expect ( ( name val ) ( name val ) ... )
	i := 0
	if i < len(toks) && toks[i] == "(" {
		i++
	}
	for i < len(toks) && toks[i] == "(" {
		i++
		if i >= len(toks) {
			return
		}
		name := toks[i]
		i++
		name = strings.Trim(name, "|")
		v, ni := parseValue(toks, i)
		i = ni
		if i < len(toks) && toks[i] == ")" {
			i++
		}
		if v != nil {
			m[name] = v
		}
	}
}

func parseValue(toks []string, i int) (*big.Int, int) {
	if i >= len(toks) {
		return nil, i
	}
	t := toks[i]
	switch {
	case t == "true":
		return big.NewInt(1), i + 1
	case t == "false":
		return big.NewInt(0), i + 1
	case strings.HasPrefix(t, "#x"):
		v, _ := new(big.Int).SetString(t[2:], 16)
		return v, i + 1
	case strings.HasPrefix(t, "#b"):
		v, _ := new(big.Int).SetString(t[2:], 2)
		return v, i + 1
	case t == "(":
		// (- N) or (_ bvN w)
		if i+1 < len(toks) && toks[i+1] == "-" {
			v, ni := parseValue(toks, i+2)
			if v != nil {
				v = new(big.Int).Neg(v)
			}
			if ni < len(toks) && toks[ni] == ")" {
				ni++
			}
			return v, ni
		}
		if i+2 < len(toks) && toks[i+1] == "_" && strings.HasPrefix(toks[i+2], "bv") {
			v, _ := new(big.Int).SetString(toks[i+2][2:], 10)
			j := i + 3
			for j < len(toks) && toks[j] != ")" {
				j++
			}
			return v, j + 1
		}
		// skip unknown
		depth := 0
		j := i
		for j < len(toks) {
			if toks[j] == "(" {
				depth++
			} else if toks[j] == ")" {
				depth--
				if depth == 0 {
					break
				}
			}
			j++
		}
		return nil, j + 1
	default:
		v, ok := new(big.Int).SetString(t, 10)
		if !ok {
			return nil, i + 1
		}
		return v, i + 1
	}
}

func tokenize(s string) []string {
	var toks []string
	i := 0
	for i < len(s) {
		c := s[i]
		switch {
		case c == ' ' || c == '\n' || c == '\t' || c == '\r':
			i++
		case c == '(' || c == ')':
			toks = append(toks, string(c))
			i++
		case c == '|':
			j := i + 1
			for j < len(s) && s[j] != '|' {
				j++
			}
			toks = append(toks, s[i:j+1])
			i = j + 1
		default:
			j := i
			for j < len(s) && !strings.ContainsRune(" \n\t\r()", rune(s[j])) {
				j++
			}
			toks = append(toks, s[i:j])
			i = j
		}
	}
	return toks
}
