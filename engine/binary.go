package main

// encoding/binary.Read / Write for fixed-size data, implemented over the engine's
// type information (the standard library uses reflection for most of these).

import (
	"fmt"
	"go/types"
	"strings"

	"golang.org/x/tools/go/ssa"
)

func (x *Exec) isLittleEndian(order Value) bool {
	ifc, ok := order.(Iface)
	if !ok || ifc.t == nil {
		panic(unsupported{"binary: nil byte order"})
	}
	s := ifc.t.String()
	switch {
	case strings.Contains(s, "littleEndian"):
		return true
	case strings.Contains(s, "bigEndian"):
		return false
	}
	panic(unsupported{"binary: unknown byte order " + s})
}

// fixedSize returns the encoded size of a value of type t holding v, or -1.
func binSize(t types.Type, v Value) int {
	switch u := t.Underlying().(type) {
	case *types.Basic:
		if w, _, ok := isWidthType(t); ok {
			if w == WBool {
				return 1
			}
			if u.Kind() == types.Int || u.Kind() == types.Uint || u.Kind() == types.Uintptr {
				return -1
			}
			return w / 8
		}
	case *types.Array:
		a := v.(*Agg)
		n := 0
		for _, e := range a.e {
			s := binSize(u.Elem(), e)
			if s < 0 {
				return -1
			}
			n += s
		}
		return n
	case *types.Slice:
		sl := v.(Slice)
		n := 0
		for i := 0; i < sl.len; i++ {
			s := binSize(u.Elem(), sl.get(i))
			if s < 0 {
				return -1
			}
			n += s
		}
		return n
	case *types.Struct:
		a := v.(*Agg)
		n := 0
		for i, e := range a.e {
			s := binSize(u.Field(i).Type(), e)
			if s < 0 {
				return -1
			}
			n += s
		}
		return n
	}
	return -1
}

func binDecode(t types.Type, old Value, bs []*Term, le bool) (Value, []*Term) {
	switch u := t.Underlying().(type) {
	case *types.Basic:
		w, _, _ := isWidthType(t)
		if w == WBool {
			return mkNot(mkEq(bs[0], mkBV(8, 0))), bs[1:]
		}
		n := w / 8
		var r *Term
		for i := 0; i < n; i++ {
			var b *Term
			if le {
				b = bs[n-1-i]
			} else {
				b = bs[i]
			}
			if r == nil {
				r = b
			} else {
				r = mkConcat(r, b)
			}
		}
		return r, bs[n:]
	case *types.Array:
		a := old.(*Agg)
		na := &Agg{e: make([]Value, len(a.e))}
		for i := range a.e {
			na.e[i], bs = binDecode(u.Elem(), a.e[i], bs, le)
		}
		return na, bs
	case *types.Struct:
		a := old.(*Agg)
		na := &Agg{e: make([]Value, len(a.e))}
		for i := range a.e {
			na.e[i], bs = binDecode(u.Field(i).Type(), a.e[i], bs, le)
		}
		return na, bs
	case *types.Slice:
		sl := old.(Slice)
		for i := 0; i < sl.len; i++ {
			var v Value
			v, bs = binDecode(u.Elem(), sl.get(i), bs, le)
			sl.set(i, v)
		}
		return sl, bs
	}
	panic(unsupported{"binary: decode of " + t.String()})
}

func binEncode(t types.Type, v Value, le bool, out []*Term) []*Term {
	switch u := t.Underlying().(type) {
	case *types.Basic:
		w, _, _ := isWidthType(t)
		tm := termOf(v)
		if w == WBool {
			return append(out, mkIte(tm, mkBV(8, 1), mkBV(8, 0)))
		}
		n := w / 8
		for i := 0; i < n; i++ {
			k := i
			if !le {
				k = n - 1 - i
			}
			out = append(out, mkExtract(tm, 8*k, 8))
		}
		return out
	case *types.Array:
		for _, e := range v.(*Agg).e {
			out = binEncode(u.Elem(), e, le, out)
		}
		return out
	case *types.Struct:
		for i, e := range v.(*Agg).e {
			out = binEncode(u.Field(i).Type(), e, le, out)
		}
		return out
	case *types.Slice:
		sl := v.(Slice)
		for i := 0; i < sl.len; i++ {
			out = binEncode(u.Elem(), sl.get(i), le, out)
		}
		return out
	}
	panic(unsupported{"binary: encode of " + t.String()})
}

func init() {
	intrinsics["encoding/binary.Read"] = func(x *Exec, c *frame, fn *ssa.Function, a []Value) Value {
		le := x.isLittleEndian(a[1])
		data := a[2].(Iface)
		if data.t == nil {
			panic(&goPanic{msg: "binary.Read: nil data", runtime: true})
		}
		var target Ptr
		var tt types.Type
		var cur Value
		switch dt := data.t.Underlying().(type) {
		case *types.Pointer:
			target = data.v.(Ptr)
			if target.isNil() {
				panic(&goPanic{msg: "binary.Read: nil pointer", runtime: true})
			}
			tt = dt.Elem()
			cur = target.load()
		case *types.Slice:
			tt = data.t
			cur = data.v
		default:
			return x.newError(strConst("binary.Read: invalid type " + data.t.String()))
		}
		n := binSize(tt, cur)
		if n < 0 {
			return x.newError(strConst("binary.Read: invalid type " + data.t.String()))
		}
		buf := newSlice(func() Value { return mkBV(8, 0) }, n, n)
		rf := x.findFunc("io", "ReadFull")
		res := x.callFunction(rf, []Value{a[0], buf}, nil, c).(Tuple)
		errv := res[1].(Iface)
		if errv.t != nil {
			return errv
		}
		nv, _ := binDecode(tt, cur, sliceTerms(buf), le)
		if _, isSlice := tt.Underlying().(*types.Slice); !isSlice || target.o != nil {
			if target.o != nil {
				if _, isSl := tt.Underlying().(*types.Slice); !isSl {
					target.store(nv)
				}
			}
		}
		return Iface{}
	}
	intrinsics["encoding/binary.Write"] = func(x *Exec, c *frame, fn *ssa.Function, a []Value) Value {
		le := x.isLittleEndian(a[1])
		data := a[2].(Iface)
		if data.t == nil {
			panic(&goPanic{msg: "binary.Write: nil data", runtime: true})
		}
		tt := data.t
		v := data.v
		if pt, ok := tt.Underlying().(*types.Pointer); ok {
			p := v.(Ptr)
			if p.isNil() {
				panic(&goPanic{msg: "binary.Write: nil pointer", runtime: true})
			}
			tt, v = pt.Elem(), p.load()
		}
		if binSize(tt, v) < 0 {
			return x.newError(strConst("binary.Write: some values are not fixed-sized in type " + data.t.String()))
		}
		bs := binEncode(tt, v, le, nil)
		w := a[0].(Iface)
		if w.t == nil {
			panic(&goPanic{msg: "binary.Write: nil writer", runtime: true})
		}
		var pkg *types.Package
		wf := x.prog.LookupMethod(w.t, pkg, "Write")
		if wf == nil {
			panic(unsupported{fmt.Sprintf("binary.Write: no Write on %s", w.t)})
		}
		res := x.callFunction(wf, []Value{w.v, byteSliceOf(bs)}, nil, c).(Tuple)
		return res[1]
	}
}
