package main

// Runtime values of the symbolic executor: concrete shape, symbolic scalar contents.

import (
	"fmt"
	"go/types"
	"math/big"
	"sync/atomic"

	"golang.org/x/tools/go/ssa"
)

type Value interface{}

// *Term: bool / integer scalars.

type Float struct{ f float64 }

type Complex struct{ c complex128 }

// Str: immutable string with concrete length.
type Str struct {
	b      []*Term
	opaque string // non-empty: un-inspectable string produced by a cut call (fmt.Sprintf...)
	inj    *Term  // non-nil: injective image of an Int term (big.Int.String())
	opaqueArgs []Value // for single-verb fmt results: the arguments (injective key)
}

// Agg: struct or array value. Immutable when held in an SSA register; owned and
// mutated in place when it lives inside an Obj.
type Agg struct{ e []Value }

// Obj: an allocation.
type Obj struct {
	v   Value
	id  int64
	tag string
}

type Ptr struct {
	o    *Obj
	path []int
	sym  *symIdx // optional symbolic last step (scalar element arrays only)
	fn   *ssa.Function // pointer-to-function used for unsafe/func comparisons (unused)
}

type symIdx struct {
	idx  *Term // 64-bit index term relative to base
	base int
	n    int
}

type Slice struct {
	o             *Obj
	path          []int // path to the array Agg inside o
	off, len, cap int
	isNil         bool
}

type Iface struct {
	t types.Type // dynamic type; nil for nil interface
	v Value
}

type Closure struct {
	fn    *ssa.Function
	env   []Value
	recv  Value // bound method receiver (for bound closures created by engine)
	bound bool
}

type BuiltinV struct{ b *ssa.Builtin }

type mapEntry struct {
	k, v    Value
	deleted bool
}

type MapObj struct {
	entries []*mapEntry
	id      int64
}

type ChanObj struct {
	q      []Value
	closed bool
}

type Tuple []Value

// BigCell models *big.Int contents: the object behind a *big.Int pointer holds one.
type BigVal struct{ t *Term }

// Opaque is produced by un-modelled calls in package initialisers.
type Opaque struct{ why string }

// RangeIter state for Range/Next.
type RangeIter struct {
	str  *Str
	pos  int
	m    *MapObj
	keys []*mapEntry
	i    int
}

var nilPtr = Ptr{}

func (p Ptr) isNil() bool { return p.o == nil }

func isWidthType(t types.Type) (w int, signed bool, ok bool) {
	b, isB := t.Underlying().(*types.Basic)
	if !isB {
		return 0, false, false
	}
	switch b.Kind() {
	case types.Bool, types.UntypedBool:
		return WBool, false, true
	case types.Int8:
		return 8, true, true
	case types.Int16:
		return 16, true, true
	case types.Int32, types.UntypedRune:
		return 32, true, true
	case types.Int64, types.Int, types.UntypedInt:
		return 64, true, true
	case types.Uint8:
		return 8, false, true
	case types.Uint16:
		return 16, false, true
	case types.Uint32:
		return 32, false, true
	case types.Uint64, types.Uint, types.Uintptr:
		return 64, false, true
	}
	return 0, false, false
}

func isString(t types.Type) bool {
	b, ok := t.Underlying().(*types.Basic)
	return ok && (b.Kind() == types.String || b.Kind() == types.UntypedString)
}

func isFloat(t types.Type) bool {
	b, ok := t.Underlying().(*types.Basic)
	return ok && (b.Info()&types.IsFloat != 0)
}

func isBigIntPtr(t types.Type) bool {
	p, ok := t.(*types.Pointer)
	if !ok {
		return false
	}
	return isBigInt(p.Elem())
}

func isBigInt(t types.Type) bool {
	n, ok := t.(*types.Named)
	if !ok {
		return false
	}
	o := n.Obj()
	return o.Pkg() != nil && o.Pkg().Path() == "math/big" && o.Name() == "Int"
}

func zeroValue(t types.Type) Value {
	switch u := t.Underlying().(type) {
	case *types.Basic:
		if w, _, ok := isWidthType(t); ok {
			if w == WBool {
				return constFalse
			}
			return mkBV(w, 0)
		}
		if isString(t) {
			return &Str{}
		}
		if isFloat(t) {
			return Float{}
		}
		if u.Kind() == types.UnsafePointer {
			return nilPtr
		}
		if u.Info()&types.IsComplex != 0 {
			return Complex{}
		}
		if u.Kind() == types.UntypedNil {
			return nilPtr
		}
		panic(unsupported{"zero of basic " + t.String()})
	case *types.Pointer:
		return nilPtr
	case *types.Slice:
		return Slice{isNil: true}
	case *types.Array:
		n := int(u.Len())
		a := &Agg{e: make([]Value, n)}
		if n > 0 {
			z := zeroValue(u.Elem())
			if _, isAgg := z.(*Agg); isAgg {
				a.e[0] = z
				for i := 1; i < n; i++ {
					a.e[i] = zeroValue(u.Elem())
				}
			} else {
				for i := range a.e {
					a.e[i] = z
				}
			}
		}
		return a
	case *types.Struct:
		if isBigInt(t) {
			return BigVal{t: mkIntI(0)}
		}
		a := &Agg{e: make([]Value, u.NumFields())}
		for i := range a.e {
			a.e[i] = zeroValue(u.Field(i).Type())
		}
		return a
	case *types.Map:
		return (*MapObj)(nil)
	case *types.Chan:
		return (*ChanObj)(nil)
	case *types.Signature:
		return (*Closure)(nil)
	case *types.Interface:
		return Iface{}
	case *types.Tuple:
		tu := make(Tuple, u.Len())
		for i := range tu {
			tu[i] = zeroValue(u.At(i).Type())
		}
		return tu
	}
	panic(unsupported{"zero of " + t.String()})
}

// copyVal deep-copies the by-value part (Aggs) of v.
func copyVal(v Value) Value {
	switch x := v.(type) {
	case *Agg:
		n := &Agg{e: make([]Value, len(x.e))}
		for i, e := range x.e {
			if _, ok := e.(*Agg); ok {
				n.e[i] = copyVal(e)
			} else {
				n.e[i] = e
			}
		}
		return n
	case Tuple:
		n := make(Tuple, len(x))
		for i, e := range x {
			n[i] = copyVal(e)
		}
		return n
	}
	return v
}

var objCounter int64

func newObj(v Value) *Obj {
	return &Obj{v: v, id: atomic.AddInt64(&objCounter, 1)}
}

// locate returns the container Agg and index for a path of length >= 1,
// or (nil,-1) if the path is empty (root).
func (p Ptr) load() Value {
	if p.o == nil {
		panic(&goPanic{msg: "nil pointer dereference", runtime: true})
	}
	if p.sym != nil {
		return p.loadSym()
	}
	v := p.o.v
	for _, i := range p.path {
		a, ok := v.(*Agg)
		if !ok {
			panic(fmt.Sprintf("load: path through non-aggregate %T", v))
		}
		v = a.e[i]
	}
	return copyVal(v)
}

func (p Ptr) container() *Agg {
	v := p.o.v
	for _, i := range p.path[:len(p.path)-1] {
		v = v.(*Agg).e[i]
	}
	return v.(*Agg)
}

func (p Ptr) loadSym() Value {
	c := p.container()
	s := p.sym
	var res *Term
	for k := s.n - 1; k >= 0; k-- {
		e, ok := c.e[s.base+k].(*Term)
		if !ok {
			panic(unsupported{"symbolic index load of non-scalar"})
		}
		if res == nil {
			res = e
		} else {
			res = mkIte(mkEq(s.idx, mkBV(64, uint64(k))), e, res)
		}
	}
	return res
}

func (p Ptr) store(v Value) {
	if p.o == nil {
		panic(&goPanic{msg: "nil pointer dereference", runtime: true})
	}
	v = copyVal(v)
	if p.sym != nil {
		c := p.container()
		s := p.sym
		nv, ok := v.(*Term)
		if !ok {
			panic(unsupported{"symbolic index store of non-scalar"})
		}
		for k := 0; k < s.n; k++ {
			old := c.e[s.base+k].(*Term)
			c.e[s.base+k] = mkIte(mkEq(s.idx, mkBV(64, uint64(k))), nv, old)
		}
		return
	}
	if len(p.path) == 0 {
		p.o.v = v
		return
	}
	c := p.container()
	c.e[p.path[len(p.path)-1]] = v
}

func (p Ptr) child(i int) Ptr {
	np := make([]int, len(p.path)+1)
	copy(np, p.path)
	np[len(p.path)] = i
	return Ptr{o: p.o, path: np}
}

func (s Slice) elemPtr(i int) Ptr {
	np := make([]int, len(s.path)+1)
	copy(np, s.path)
	np[len(s.path)] = s.off + i
	return Ptr{o: s.o, path: np}
}

func (s Slice) arr() *Agg {
	v := s.o.v
	for _, i := range s.path {
		v = v.(*Agg).e[i]
	}
	return v.(*Agg)
}

func (s Slice) get(i int) Value { return s.arr().e[s.off+i] }

func (s Slice) set(i int, v Value) { s.arr().e[s.off+i] = copyVal(v) }

func newSlice(elemZero func() Value, n, c int) Slice {
	a := &Agg{e: make([]Value, c)}
	if c > 0 {
		z := elemZero()
		if _, isAgg := z.(*Agg); isAgg {
			a.e[0] = z
			for i := 1; i < c; i++ {
				a.e[i] = elemZero()
			}
		} else {
			for i := range a.e {
				a.e[i] = z
			}
		}
	}
	return Slice{o: newObj(a), len: n, cap: c}
}

func strConst(s string) *Str {
	b := make([]*Term, len(s))
	for i := 0; i < len(s); i++ {
		b[i] = mkBV(8, uint64(s[i]))
	}
	return &Str{b: b}
}

func (s *Str) concrete() (string, bool) {
	if s.opaque != "" || s.inj != nil {
		return "", false
	}
	bs := make([]byte, len(s.b))
	for i, t := range s.b {
		if !t.isConst() {
			return "", false
		}
		bs[i] = byte(t.k)
	}
	return string(bs), true
}

func (s *Str) check() {
	if s.opaque != "" {
		panic(unsupported{"inspection of opaque string from " + s.opaque})
	}
	if s.inj != nil {
		panic(unsupported{"inspection of injective big.Int string"})
	}
}

func termOf(v Value) *Term {
	t, ok := v.(*Term)
	if !ok {
		panic(fmt.Sprintf("expected scalar term, got %T", v))
	}
	return t
}

func concreteInt(v Value) (int64, bool) {
	t, ok := v.(*Term)
	if !ok || !t.isConst() {
		return 0, false
	}
	return signExt(t.k, t.w), true
}

type unsupported struct{ msg string }

func (u unsupported) Error() string { return "unsupported: " + u.msg }

// goPanic models a Go-language panic in the interpreted program.
type goPanic struct {
	val       Value
	msg       string
	runtime   bool
	recovered bool
	stack     string
}

func (g *goPanic) String() string {
	if g.msg != "" {
		return g.msg
	}
	return describeValue(g.val)
}

func describeValue(v Value) string {
	switch x := v.(type) {
	case *Term:
		return x.String()
	case *Str:
		if s, ok := x.concrete(); ok {
			return fmt.Sprintf("%q", s)
		}
		if x.opaque != "" {
			return "<opaque:" + x.opaque + ">"
		}
		return fmt.Sprintf("<sym string len %d>", len(x.b))
	case Iface:
		if x.t == nil {
			return "nil"
		}
		return x.t.String() + "(" + describeValue(x.v) + ")"
	case Ptr:
		if x.o == nil {
			return "nil"
		}
		if a, ok := x.o.v.(*Agg); ok && len(x.path) == 0 && len(a.e) <= 4 {
			s := "&{"
			for i, e := range a.e {
				if i > 0 {
					s += " "
				}
				s += describeValue(e)
			}
			return s + "}"
		}
		return fmt.Sprintf("ptr#%d%v", x.o.id, x.path)
	case *Agg:
		if len(x.e) > 8 {
			return fmt.Sprintf("agg[%d]", len(x.e))
		}
		s := "{"
		for i, e := range x.e {
			if i > 0 {
				s += " "
			}
			s += describeValue(e)
		}
		return s + "}"
	case BigVal:
		return "big(" + x.t.String() + ")"
	}
	return fmt.Sprintf("%T", v)
}

var _ = big.NewInt
