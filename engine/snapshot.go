package main

// Package-initialiser snapshot: package init functions run once per process in a
// concrete-only executor; each path lazily deep-clones the globals it touches.

import (
	"sync"

	"golang.org/x/tools/go/ssa"
)

type snapshotT struct {
	mu sync.Mutex
	x  *Exec
}

var snapshots sync.Map // *ssa.Program -> *snapshotT

func getSnapshot(prog *ssa.Program, cfg *RunConfig) *snapshotT {
	if s, ok := snapshots.Load(prog); ok {
		return s.(*snapshotT)
	}
	ps := &PathState{initMode: true}
	ps.setWitness(Model{})
	x := &Exec{prog: prog, ps: ps, cfg: cfg, globals: map[*ssa.Global]*Obj{}, initDone: map[*ssa.Package]bool{},
		maxSteps: 1 << 40, stubs: map[string]Value{}, ufApps: map[string][]*ufApp{}, allocLimit: 1 << 24, isSnapshot: true}
	s, _ := snapshots.LoadOrStore(prog, &snapshotT{x: x})
	return s.(*snapshotT)
}

type cloner struct {
	objs  map[*Obj]*Obj
	maps  map[*MapObj]*MapObj
	chans map[*ChanObj]*ChanObj
}

func newCloner() *cloner {
	return &cloner{objs: map[*Obj]*Obj{}, maps: map[*MapObj]*MapObj{}, chans: map[*ChanObj]*ChanObj{}}
}

func (c *cloner) obj(o *Obj) *Obj {
	if o == nil {
		return nil
	}
	if n, ok := c.objs[o]; ok {
		return n
	}
	n := &Obj{id: o.id, tag: o.tag}
	c.objs[o] = n
	n.v = c.val(o.v)
	return n
}

func (c *cloner) val(v Value) Value {
	switch x := v.(type) {
	case *Agg:
		n := &Agg{e: make([]Value, len(x.e))}
		for i, e := range x.e {
			n.e[i] = c.val(e)
		}
		return n
	case Ptr:
		if x.o == nil {
			return x
		}
		return Ptr{o: c.obj(x.o), path: x.path, sym: x.sym}
	case Slice:
		if x.o == nil {
			return x
		}
		x.o = c.obj(x.o)
		return x
	case Iface:
		if x.t == nil {
			return x
		}
		return Iface{t: x.t, v: c.val(x.v)}
	case *Closure:
		if x == nil {
			return x
		}
		n := &Closure{fn: x.fn, bound: x.bound}
		if x.recv != nil {
			n.recv = c.val(x.recv)
		}
		if len(x.env) > 0 {
			n.env = make([]Value, len(x.env))
			for i, e := range x.env {
				n.env[i] = c.val(e)
			}
		}
		return n
	case *MapObj:
		if x == nil {
			return x
		}
		if n, ok := c.maps[x]; ok {
			return n
		}
		n := &MapObj{}
		c.maps[x] = n
		n.entries = make([]*mapEntry, 0, len(x.entries))
		for _, e := range x.entries {
			if e.deleted {
				continue
			}
			n.entries = append(n.entries, &mapEntry{k: c.val(e.k), v: c.val(e.v)})
		}
		return n
	case *ChanObj:
		if x == nil {
			return x
		}
		if n, ok := c.chans[x]; ok {
			return n
		}
		n := &ChanObj{closed: x.closed}
		c.chans[x] = n
		for _, e := range x.q {
			n.q = append(n.q, c.val(e))
		}
		return n
	case Tuple:
		n := make(Tuple, len(x))
		for i, e := range x {
			n[i] = c.val(e)
		}
		return n
	}
	return v
}
