package main

// The SSA interpreter proper.

import (
	"fmt"
	"go/constant"
	"go/token"
	"go/types"
	"math/big"
	"strings"

	"golang.org/x/tools/go/ssa"
)

type frame struct {
	fn        *ssa.Function
	env       map[ssa.Value]Value
	freeVars  []Value
	defers    []deferred
	caller    *frame
	panicking *goPanic
	isDefer   bool // this frame is a deferred call run during the caller's RunDefers/unwind
	result    Value
	block     *ssa.BasicBlock
	prev      *ssa.BasicBlock
}

type deferred struct {
	fnv  Value // callee value (Closure/BuiltinV) or nil for invoke
	args []Value
	call *ssa.CallCommon
	recv Value // for invoke
}

type pathEnd struct{ why string } // quiet termination of a path (assumption failed, etc.)

type Exec struct {
	prog     *ssa.Program
	ps       *PathState
	cfg      *RunConfig
	globals  map[*ssa.Global]*Obj
	initDone map[*ssa.Package]bool
	initing  bool
	steps    int64
	maxSteps int64
	stubs    map[string]Value
	mapNondet bool
	depth    int
	ufApps   map[string][]*ufApp
	curFn    []*ssa.Function
	funcsHit map[*ssa.Function]bool
	allocLimit int64
	onceDone map[*Obj]map[string]bool
	isSnapshot bool
	cloner   *cloner
	intUFApps map[string][]*intUFApp
	jsonVals []jsonVal
	jsonTop  bool
	bigBytesMemo []bigBytesRec
}

type ufApp struct {
	args [][]*Term
	out  []*Term
}

func (x *Exec) get(fr *frame, v ssa.Value) Value {
	switch v := v.(type) {
	case *ssa.Const:
		return x.constValue(v)
	case *ssa.Global:
		return Ptr{o: x.globalObj(v)}
	case *ssa.Function:
		return &Closure{fn: v}
	case *ssa.Builtin:
		return BuiltinV{v}
	}
	r, ok := fr.env[v]
	if !ok {
		panic(fmt.Sprintf("no value for %s (%T) in %s", v.Name(), v, fr.fn))
	}
	return r
}

func (x *Exec) constValue(c *ssa.Const) Value {
	t := c.Type()
	if c.Value == nil {
		return zeroValue(t)
	}
	if w, _, ok := isWidthType(t); ok {
		if w == WBool {
			return mkBool(constant.BoolVal(c.Value))
		}
		if v, exact := constant.Uint64Val(constant.ToInt(c.Value)); exact {
			return mkBV(w, v)
		}
		v, _ := constant.Int64Val(constant.ToInt(c.Value))
		return mkBV(w, uint64(v))
	}
	if isString(t) {
		return strConst(constant.StringVal(c.Value))
	}
	if isFloat(t) {
		f, _ := constant.Float64Val(c.Value)
		return Float{f}
	}
	if b, ok := t.Underlying().(*types.Basic); ok && b.Info()&types.IsComplex != 0 {
		return Complex{c.Complex128()}
	}
	panic(unsupported{"const of type " + t.String()})
}

// ---- globals and package init ----

func (x *Exec) globalObj(g *ssa.Global) *Obj {
	if o, ok := x.globals[g]; ok {
		return o
	}
	if !x.isSnapshot {
		snap := getSnapshot(x.prog, x.cfg)
		snap.mu.Lock()
		so := snap.x.globalObj(g)
		if x.cloner == nil {
			x.cloner = newCloner()
		}
		o := x.cloner.obj(so)
		for _, n := range snap.x.ps.notes {
			x.ps.note(n)
		}
		snap.mu.Unlock()
		x.globals[g] = o
		return o
	}
	// allocate all globals of the package zeroed, then run init lazily
	pkg := g.Pkg
	x.ensureInit(pkg)
	if o, ok := x.globals[g]; ok {
		return o
	}
	o := newObj(zeroValue(g.Type().(*types.Pointer).Elem()))
	o.tag = g.String()
	x.globals[g] = o
	return o
}

func (x *Exec) ensureInit(pkg *ssa.Package) {
	if x.initDone[pkg] {
		return
	}
	x.initDone[pkg] = true
	for _, m := range pkg.Members {
		if g, ok := m.(*ssa.Global); ok {
			if _, have := x.globals[g]; !have {
				o := newObj(zeroValue(g.Type().(*types.Pointer).Elem()))
				o.tag = g.String()
				x.globals[g] = o
			}
		}
	}
	initFn := pkg.Func("init")
	if initFn == nil || initFn.Blocks == nil {
		return
	}
	wasInit := x.initing
	x.initing = true
	saveSteps := x.steps
	func() {
		defer func() {
			if r := recover(); r != nil {
				switch r.(type) {
				case unsupported, *goPanic:
					// partial initialisation: remaining globals stay zero; note it
					x.ps.note("init of " + pkg.Pkg.Path() + " incomplete: " + fmt.Sprint(r))
				default:
					panic(r)
				}
			}
		}()
		x.callFunction(initFn, nil, nil, nil)
	}()
	x.steps = saveSteps
	x.initing = wasInit
	if pkg.Pkg.Path() == "crypto" {
		x.registerStdHashes(pkg)
	}
}

// registerStdHashes mirrors the crypto.RegisterHash calls made by the init
// functions of the standard hash packages (package inits run lazily here, so a
// registration made by another package's init would otherwise be missed).
func (x *Exec) registerStdHashes(cr *ssa.Package) {
	g, ok := cr.Members["hashes"].(*ssa.Global)
	if !ok {
		return
	}
	sl, ok := x.globals[g].v.(Slice)
	if !ok {
		return
	}
	reg := func(idx int, pkgPath, fn string) {
		p := x.prog.ImportedPackage(pkgPath)
		if p == nil || idx >= sl.len {
			return
		}
		if f := p.Func(fn); f != nil {
			sl.set(idx, &Closure{fn: f})
		}
	}
	reg(2, "crypto/md5", "New")
	reg(3, "crypto/sha1", "New")
	reg(4, "crypto/sha256", "New224")
	reg(5, "crypto/sha256", "New")
	reg(6, "crypto/sha512", "New384")
	reg(7, "crypto/sha512", "New")
}

// ---- calls ----

func fnKey(fn *ssa.Function) string {
	if fn.Origin() != nil {
		return fn.Origin().String()
	}
	return fn.String()
}

func (x *Exec) callValue(fr *frame, fv Value, args []Value) Value {
	switch f := fv.(type) {
	case *Closure:
		if f == nil {
			panic(&goPanic{msg: "call of nil func", runtime: true})
		}
		if f.bound {
			args = append([]Value{f.recv}, args...)
		}
		return x.callFunction(f.fn, args, f.env, fr)
	case BuiltinV:
		panic("builtin as value")
	case Ptr:
		if f.isNil() {
			panic(&goPanic{msg: "call of nil func", runtime: true})
		}
	}
	panic(fmt.Sprintf("callValue: %T", fv))
}

func (x *Exec) callFunction(fn *ssa.Function, args []Value, env []Value, caller *frame) Value {
	key := fnKey(fn)
	if !x.initing {
		if sv, ok := x.stubs[key]; ok {
			return x.callValue(caller, sv, args)
		}
	}
	if in, ok := intrinsics[key]; ok {
		return in(x, caller, fn, args)
	}
	if x.initing {
		if in, ok := initCuts[key]; ok {
			return in(x, caller, fn, args)
		}
		// a package initialiser calling the initialisers of its imports: run each
		// one isolated (its own failure handling and done flag)
		if fn.Pkg != nil && fn.Name() == "init" && fn == fn.Pkg.Func("init") && caller != nil {
			x.ensureInit(fn.Pkg)
			return nil
		}
	}
	if fn.Blocks == nil {
		if x.initing {
			return opaqueResult(fn, "external "+key)
		}
		panic(unsupported{"function without body: " + key})
	}
	if cut := cutPrefix(key); cut {
		if x.initing {
			return opaqueResult(fn, "cut "+key)
		}
		panic(unsupported{"call into cut package: " + key})
	}
	x.depth++
	if x.depth > 400 {
		panic(unsupported{"call depth exceeded at " + key})
	}
	if x.funcsHit != nil {
		x.funcsHit[fn] = true
	}
	defer func() { x.depth-- }()
	fr := &frame{fn: fn, env: make(map[ssa.Value]Value, 16), freeVars: env, caller: caller}
	for i, p := range fn.Params {
		if i < len(args) {
			fr.env[p] = args[i]
		} else {
			panic(fmt.Sprintf("missing arg %d for %s", i, fn))
		}
	}
	for i, fv := range fn.FreeVars {
		fr.env[fv] = env[i]
	}
	return x.runFrame(fr)
}

func opaqueResult(fn *ssa.Function, why string) Value {
	res := fn.Signature.Results()
	switch res.Len() {
	case 0:
		return nil
	case 1:
		return opaqueOf(res.At(0).Type(), why)
	}
	t := make(Tuple, res.Len())
	for i := range t {
		t[i] = opaqueOf(res.At(i).Type(), why)
	}
	return t
}

func opaqueOf(t types.Type, why string) Value {
	// zero values are the safest stand-in for init-time opaque results of
	// scalar type; reference types become Opaque and fault on use.
	switch t.Underlying().(type) {
	case *types.Basic:
		return zeroValue(t)
	case *types.Interface:
		return Iface{t: opaqueType, v: Opaque{why}}
	}
	return Opaque{why}
}

var opaqueType = types.NewNamed(types.NewTypeName(token.NoPos, nil, "opaque", nil), types.NewStruct(nil, nil), nil)

// cutPrefix reports packages never entered (formatting, logging, reflection-heavy).
func cutPrefix(key string) bool {
	for _, p := range cutPackages {
		if strings.HasPrefix(key, p) || strings.HasPrefix(key, "(*"+p) || strings.HasPrefix(key, "("+p) {
			return true
		}
	}
	return false
}

var cutPackages = []string{
	"fmt.", "log.", "os.", "net.Dial", "net.Listen", "net.Lookup", "reflect.", "runtime.", "syscall.", "encoding/json.",
	"github.com/sirupsen/logrus.", "github.com/op/go-logging.", "regexp.", "text/template.",
	"internal/poll.", "internal/godebug.", "crypto/internal/fips140", "crypto/internal/boring",
}

func (x *Exec) runFrame(fr *frame) (result Value) {
	fn := fr.fn
	// Go-language panics unwind through here.
	defer func() {
		r := recover()
		if r == nil {
			return
		}
		gp, ok := r.(*goPanic)
		if !ok {
			switch e := r.(type) {
			case string:
				panic(unsupported{"ENGINE-BUG " + e + " @ " + x.stackString(fr)})
			case error:
				if _, isU := r.(unsupported); !isU {
					panic(unsupported{"ENGINE-BUG " + e.Error() + " @ " + x.stackString(fr)})
				}
			}
			panic(r)
		}
		if gp.stack == "" {
			gp.stack = x.stackString(fr)
		}
		fr.panicking = gp
		x.runDefers(fr)
		if fr.panicking != nil && !fr.panicking.recovered {
			panic(fr.panicking)
		}
		// recovered: resume at the Recover block if any
		fr.panicking = nil
		if fn.Recover != nil {
			fr.prev = nil
			fr.block = fn.Recover
			result = x.runBlocks(fr)
			return
		}
		result = zeroResults(fn)
	}()
	fr.block = fn.Blocks[0]
	return x.runBlocks(fr)
}

func zeroResults(fn *ssa.Function) Value {
	res := fn.Signature.Results()
	switch res.Len() {
	case 0:
		return nil
	case 1:
		return zeroValue(res.At(0).Type())
	}
	t := make(Tuple, res.Len())
	for i := range t {
		t[i] = zeroValue(res.At(i).Type())
	}
	return t
}

func (x *Exec) stackString(fr *frame) string {
	var sb strings.Builder
	for f := fr; f != nil; f = f.caller {
		sb.WriteString(f.fn.String())
		sb.WriteString(" <- ")
		if sb.Len() > 600 {
			break
		}
	}
	return sb.String()
}

func (x *Exec) runDefers(fr *frame) {
	for len(fr.defers) > 0 {
		d := fr.defers[len(fr.defers)-1]
		fr.defers = fr.defers[:len(fr.defers)-1]
		x.runDeferred(fr, d)
	}
}

func (x *Exec) runDeferred(fr *frame, d deferred) {
	// a panic inside a deferred call replaces the current one
	defer func() {
		if r := recover(); r != nil {
			gp, ok := r.(*goPanic)
			if !ok {
				panic(r)
			}
			fr.panicking = gp
			// continue running remaining defers
			x.runDefers(fr)
			if fr.panicking != nil && !fr.panicking.recovered {
				panic(fr.panicking)
			}
		}
	}()
	x.invokeDeferred(fr, d)
}

func (x *Exec) invokeDeferred(fr *frame, d deferred) {
	if d.call.IsInvoke() {
		x.invoke(fr, d.recv, d.call.Method, d.args, true)
		return
	}
	switch f := d.fnv.(type) {
	case BuiltinV:
		x.builtin(fr, f.b, d.args, d.call, true)
	case *Closure:
		if f == nil {
			panic(&goPanic{msg: "deferred call of nil func", runtime: true})
		}
		args := d.args
		if f.bound {
			args = append([]Value{f.recv}, args...)
		}
		x.callDeferredFn(fr, f.fn, args, f.env)
	default:
		panic(fmt.Sprintf("deferred %T", d.fnv))
	}
}

// callDeferredFn calls fn as a deferred function of fr, so that recover() works.
func (x *Exec) callDeferredFn(fr *frame, fn *ssa.Function, args []Value, env []Value) {
	key := fnKey(fn)
	if sv, ok := x.stubs[key]; ok {
		x.callValue(fr, sv, args)
		return
	}
	if in, ok := intrinsics[key]; ok {
		in(x, fr, fn, args)
		return
	}
	if fn.Blocks == nil {
		panic(unsupported{"deferred function without body: " + key})
	}
	nf := &frame{fn: fn, env: make(map[ssa.Value]Value, 8), freeVars: env, caller: fr, isDefer: true}
	for i, p := range fn.Params {
		nf.env[p] = args[i]
	}
	for i, fv := range fn.FreeVars {
		nf.env[fv] = env[i]
	}
	x.depth++
	defer func() { x.depth-- }()
	x.runFrame(nf)
}

func (x *Exec) invoke(fr *frame, recv Value, m *types.Func, args []Value, asDefer bool) Value {
	ifc, ok := recv.(Iface)
	if !ok {
		panic(fmt.Sprintf("invoke on %T", recv))
	}
	if ifc.t == nil {
		panic(&goPanic{msg: "nil interface method call " + m.Name(), runtime: true})
	}
	if _, isOpq := ifc.v.(Opaque); isOpq {
		panic(unsupported{"method call on opaque value: " + m.Name()})
	}
	if rt, isRT := ifc.v.(ReflType); isRT {
		return x.reflTypeMethod(rt, m.Name(), args)
	}
	fn := x.prog.LookupMethod(ifc.t, m.Pkg(), m.Name())
	if fn == nil {
		panic(fmt.Sprintf("no method %s on %s", m.Name(), ifc.t))
	}
	all := append([]Value{ifc.v}, args...)
	if asDefer {
		x.callDeferredFn(fr, fn, all, nil)
		return nil
	}
	return x.callFunction(fn, all, nil, fr)
}

func (x *Exec) doCall(fr *frame, c *ssa.CallCommon) Value {
	args := make([]Value, len(c.Args))
	for i, a := range c.Args {
		args[i] = x.get(fr, a)
	}
	if c.IsInvoke() {
		return x.invoke(fr, x.get(fr, c.Value), c.Method, args, false)
	}
	switch f := c.Value.(type) {
	case *ssa.Builtin:
		return x.builtin(fr, f, args, c, false)
	case *ssa.Function:
		return x.callFunction(f, args, nil, fr)
	}
	fv := x.get(fr, c.Value)
	return x.callValue(fr, fv, args)
}

// ---- the block loop ----

func (x *Exec) runBlocks(fr *frame) Value {
	for {
		b := fr.block
		var next *ssa.BasicBlock
		for _, ins := range b.Instrs {
			x.steps++
			if x.steps > x.maxSteps {
				panic(stepLimit{})
			}
			switch i := ins.(type) {
			case *ssa.Phi:
				for k, p := range b.Preds {
					if p == fr.prev {
						fr.env[i] = x.get(fr, i.Edges[k])
						break
					}
				}
			case *ssa.If:
				c := termOf(x.get(fr, i.Cond))
				if x.ps.decide(c, "if@"+fr.fn.Name()) {
					next = b.Succs[0]
				} else {
					next = b.Succs[1]
				}
			case *ssa.Jump:
				next = b.Succs[0]
			case *ssa.Return:
				var res Value
				switch len(i.Results) {
				case 0:
				case 1:
					res = x.get(fr, i.Results[0])
				default:
					t := make(Tuple, len(i.Results))
					for k, r := range i.Results {
						t[k] = x.get(fr, r)
					}
					res = t
				}
				return res
			case *ssa.RunDefers:
				x.runDefers(fr)
			case *ssa.Panic:
				v := x.get(fr, i.X)
				panic(&goPanic{val: v})
			default:
				x.step(fr, ins)
			}
		}
		if next == nil {
			panic("block fell through: " + fr.fn.String())
		}
		fr.prev = b
		fr.block = next
	}
}

type stepLimit struct{}

func (x *Exec) step(fr *frame, ins ssa.Instruction) {
	switch i := ins.(type) {
	case *ssa.Alloc:
		o := newObj(zeroValue(i.Type().(*types.Pointer).Elem()))
		fr.env[i] = Ptr{o: o}
	case *ssa.BinOp:
		fr.env[i] = x.binop(i.Op, x.get(fr, i.X), x.get(fr, i.Y), i.X.Type(), i.Y.Type())
	case *ssa.UnOp:
		fr.env[i] = x.unop(fr, i)
	case *ssa.Call:
		fr.env[i] = x.doCall(fr, &i.Call)
	case *ssa.ChangeInterface:
		fr.env[i] = x.get(fr, i.X)
	case *ssa.ChangeType:
		fr.env[i] = x.get(fr, i.X)
	case *ssa.Convert:
		fr.env[i] = x.convert(x.get(fr, i.X), i.X.Type(), i.Type())
	case *ssa.SliceToArrayPointer:
		s := x.get(fr, i.X).(Slice)
		n := int(i.Type().(*types.Pointer).Elem().Underlying().(*types.Array).Len())
		if s.len < n {
			panic(&goPanic{msg: "slice to array pointer: length too short", runtime: true})
		}
		if s.isNil {
			fr.env[i] = nilPtr
			break
		}
		if s.off == 0 && s.arr() != nil && len(s.arr().e) == n {
			fr.env[i] = Ptr{o: s.o, path: s.path}
		} else {
			panic(unsupported{"slice to array pointer with offset"})
		}
	case *ssa.MakeInterface:
		fr.env[i] = Iface{t: i.X.Type(), v: x.get(fr, i.X)}
	case *ssa.Extract:
		fr.env[i] = x.get(fr, i.Tuple).(Tuple)[i.Index]
	case *ssa.Field:
		v := x.get(fr, i.X)
		switch a := v.(type) {
		case *Agg:
			fr.env[i] = a.e[i.Field]
		case BigVal:
			panic(unsupported{"field access on big.Int value"})
		default:
			panic(fmt.Sprintf("Field on %T", v))
		}
	case *ssa.FieldAddr:
		p := x.ptrOf(x.get(fr, i.X))
		if p.isNil() {
			panic(&goPanic{msg: "nil pointer dereference (field " + fieldName(i) + ")", runtime: true})
		}
		if p.sym != nil {
			p = x.concretizePtr(p)
		}
		if _, isBig := x.peek(p).(BigVal); isBig {
			panic(unsupported{"field access on big.Int in " + fr.fn.String()})
		}
		fr.env[i] = p.child(i.Field)
	case *ssa.Index:
		fr.env[i] = x.indexValue(fr, i)
	case *ssa.IndexAddr:
		fr.env[i] = x.indexAddr(fr, i)
	case *ssa.Lookup:
		fr.env[i] = x.lookup(fr, i)
	case *ssa.MakeChan:
		fr.env[i] = &ChanObj{}
	case *ssa.MakeClosure:
		env := make([]Value, len(i.Bindings))
		for k, b := range i.Bindings {
			env[k] = x.get(fr, b)
		}
		fr.env[i] = &Closure{fn: i.Fn.(*ssa.Function), env: env}
	case *ssa.MakeMap:
		fr.env[i] = &MapObj{}
	case *ssa.MakeSlice:
		fr.env[i] = x.makeSlice(fr, i)
	case *ssa.MapUpdate:
		m := x.get(fr, i.Map).(*MapObj)
		if m == nil {
			panic(&goPanic{msg: "assignment to entry in nil map", runtime: true})
		}
		x.mapSet(m, x.get(fr, i.Key), x.get(fr, i.Value))
	case *ssa.Range:
		fr.env[i] = x.makeRange(x.get(fr, i.X))
	case *ssa.Next:
		fr.env[i] = x.rangeNext(fr, i)
	case *ssa.Slice:
		fr.env[i] = x.sliceOp(fr, i)
	case *ssa.TypeAssert:
		fr.env[i] = x.typeAssert(i, x.get(fr, i.X))
	case *ssa.Store:
		p := x.ptrOf(x.get(fr, i.Addr))
		if p.isNil() {
			panic(&goPanic{msg: "nil pointer dereference (store)", runtime: true})
		}
		p.store(x.get(fr, i.Val))
	case *ssa.Send:
		ch := x.get(fr, i.Chan).(*ChanObj)
		if ch == nil {
			panic(unsupported{"send on nil channel"})
		}
		if ch.closed {
			panic(&goPanic{msg: "send on closed channel", runtime: true})
		}
		ch.q = append(ch.q, x.get(fr, i.X))
	case *ssa.Go:
		// run to completion inline (one schedule; see DESIGN §2.2)
		x.doCall(fr, &i.Call)
	case *ssa.Defer:
		d := deferred{call: &i.Call}
		d.args = make([]Value, len(i.Call.Args))
		for k, a := range i.Call.Args {
			d.args[k] = x.get(fr, a)
		}
		if i.Call.IsInvoke() {
			d.recv = x.get(fr, i.Call.Value)
		} else {
			d.fnv = x.get(fr, i.Call.Value)
		}
		fr.defers = append(fr.defers, d)
	case *ssa.DebugRef:
	case *ssa.Select:
		panic(unsupported{"select"})
	case *ssa.MultiConvert:
		panic(unsupported{"multiconvert"})
	default:
		panic(fmt.Sprintf("unhandled instruction %T", ins))
	}
}

func fieldName(i *ssa.FieldAddr) string {
	st, ok := i.X.Type().Underlying().(*types.Pointer).Elem().Underlying().(*types.Struct)
	if !ok {
		return "?"
	}
	return st.Field(i.Field).Name()
}

func (x *Exec) ptrOf(v Value) Ptr {
	switch p := v.(type) {
	case Ptr:
		return p
	case Opaque:
		panic(unsupported{"use of opaque pointer: " + p.why})
	}
	panic(fmt.Sprintf("expected pointer, got %T", v))
}

// peek reads without copying (for type inspection only).
func (x *Exec) peek(p Ptr) Value {
	if p.sym != nil {
		return nil
	}
	v := p.o.v
	for _, i := range p.path {
		a, ok := v.(*Agg)
		if !ok {
			return nil
		}
		v = a.e[i]
	}
	return v
}

func (x *Exec) concretizePtr(p Ptr) Ptr {
	k := x.ps.concretize(p.sym.idx, "index")
	np := make([]int, len(p.path))
	copy(np, p.path)
	np[len(np)-1] = p.sym.base + int(k)
	return Ptr{o: p.o, path: np}
}

// ---- unary / binary ----

func (x *Exec) unop(fr *frame, i *ssa.UnOp) Value {
	v := x.get(fr, i.X)
	switch i.Op {
	case token.MUL:
		p := x.ptrOf(v)
		if p.isNil() {
			panic(&goPanic{msg: "nil pointer dereference (load " + i.X.Name() + " in " + fr.fn.Name() + ")", runtime: true})
		}
		return p.load()
	case token.NOT:
		return mkNot(termOf(v))
	case token.SUB:
		switch t := v.(type) {
		case *Term:
			return mkNeg(t)
		case Float:
			return Float{-t.f}
		}
	case token.XOR:
		return mkBNot(termOf(v))
	case token.ARROW:
		ch := v.(*ChanObj)
		if ch == nil {
			panic(unsupported{"receive from nil channel"})
		}
		elem := i.X.Type().Underlying().(*types.Chan).Elem()
		var val Value
		ok := false
		if len(ch.q) > 0 {
			val = ch.q[0]
			ch.q = ch.q[1:]
			ok = true
		} else if ch.closed {
			val = zeroValue(elem)
		} else {
			panic(unsupported{"receive on empty open channel (would block)"})
		}
		if i.CommaOk {
			return Tuple{val, mkBool(ok)}
		}
		return val
	}
	panic(fmt.Sprintf("unop %s on %T", i.Op, v))
}

func (x *Exec) binop(op token.Token, a, b Value, ta, tb types.Type) Value {
	switch av := a.(type) {
	case *Term:
		bv, ok := b.(*Term)
		if !ok {
			panic(fmt.Sprintf("binop %s: term vs %T", op, b))
		}
		return x.termBinop(op, av, bv, ta, tb)
	case *Str:
		bs := b.(*Str)
		return x.strBinop(op, av, bs)
	case Float:
		bf := b.(Float)
		switch op {
		case token.ADD:
			return Float{av.f + bf.f}
		case token.SUB:
			return Float{av.f - bf.f}
		case token.MUL:
			return Float{av.f * bf.f}
		case token.QUO:
			return Float{av.f / bf.f}
		case token.LSS:
			return mkBool(av.f < bf.f)
		case token.LEQ:
			return mkBool(av.f <= bf.f)
		case token.GTR:
			return mkBool(av.f > bf.f)
		case token.GEQ:
			return mkBool(av.f >= bf.f)
		case token.EQL:
			return mkBool(av.f == bf.f)
		case token.NEQ:
			return mkBool(av.f != bf.f)
		}
	}
	switch op {
	case token.EQL:
		return x.valEq(a, b)
	case token.NEQ:
		return mkNot(x.valEq(a, b))
	}
	panic(unsupported{fmt.Sprintf("binop %s on %T,%T", op, a, b)})
}

func (x *Exec) termBinop(op token.Token, a, b *Term, ta, tb types.Type) Value {
	w, signed, _ := isWidthType(ta)
	if a.w == WBool {
		switch op {
		case token.EQL:
			return mkEq(a, b)
		case token.NEQ:
			return mkNot(mkEq(a, b))
		case token.AND, token.LAND:
			return mkAnd(a, b)
		case token.OR, token.LOR:
			return mkOr(a, b)
		}
		panic(fmt.Sprintf("bool binop %s", op))
	}
	_ = w
	switch op {
	case token.ADD:
		return bvBin(OpAdd, a, b)
	case token.SUB:
		return bvBin(OpSub, a, b)
	case token.MUL:
		return bvBin(OpMul, a, b)
	case token.QUO, token.REM:
		if !x.ps.decide(mkNot(mkEq(b, mkBV(b.w, 0))), "divzero") {
			panic(&goPanic{msg: "integer divide by zero", runtime: true})
		}
		if signed {
			if op == token.QUO {
				return bvBin(OpSDiv, a, b)
			}
			return bvBin(OpSRem, a, b)
		}
		if op == token.QUO {
			return bvBin(OpUDiv, a, b)
		}
		return bvBin(OpURem, a, b)
	case token.AND:
		return bvBin(OpBAnd, a, b)
	case token.OR:
		return bvBin(OpBOr, a, b)
	case token.XOR:
		return bvBin(OpBXor, a, b)
	case token.AND_NOT:
		return bvBin(OpBAnd, a, mkBNot(b))
	case token.SHL, token.SHR:
		// shift count may have a different width/signedness
		_, bsigned, _ := isWidthType(tb)
		if bsigned {
			neg := mkCmp(OpSlt, b, mkBV(b.w, 0))
			if x.ps.decide(neg, "negshift") {
				panic(&goPanic{msg: "negative shift amount", runtime: true})
			}
		}
		var cnt *Term
		if b.w < a.w {
			cnt = mkZExt(b, a.w)
		} else if b.w > a.w {
			// saturate: if b >= a.w then result is 0 / sign fill
			big := mkCmp(OpUle, mkBV(b.w, uint64(a.w)), b)
			low := mkExtract(b, 0, a.w)
			cnt = mkIte(big, mkBV(a.w, uint64(a.w)), low)
		} else {
			cnt = b
		}
		if op == token.SHL {
			return bvBin(OpShl, a, cnt)
		}
		if signed {
			return bvBin(OpAShr, a, cnt)
		}
		return bvBin(OpLShr, a, cnt)
	case token.EQL:
		return mkEq(a, b)
	case token.NEQ:
		return mkNot(mkEq(a, b))
	case token.LSS:
		if signed {
			return mkCmp(OpSlt, a, b)
		}
		return mkCmp(OpUlt, a, b)
	case token.LEQ:
		if signed {
			return mkCmp(OpSle, a, b)
		}
		return mkCmp(OpUle, a, b)
	case token.GTR:
		if signed {
			return mkCmp(OpSlt, b, a)
		}
		return mkCmp(OpUlt, b, a)
	case token.GEQ:
		if signed {
			return mkCmp(OpSle, b, a)
		}
		return mkCmp(OpUle, b, a)
	}
	panic(fmt.Sprintf("int binop %s", op))
}

func (x *Exec) strEq(a, b *Str) *Term {
	if a.inj != nil || b.inj != nil {
		if a.inj != nil && b.inj != nil {
			return mkEq(a.inj, b.inj)
		}
		panic(unsupported{"comparison of injective big.Int string with ordinary string"})
	}
	if a.opaqueArgs != nil && b.opaqueArgs != nil && a.opaque == b.opaque && len(a.opaqueArgs) == len(b.opaqueArgs) {
		// the same single-verb format applied to two argument lists: equal iff the arguments are
		r := constTrue
		for i := range a.opaqueArgs {
			r = mkAnd(r, x.valEq(a.opaqueArgs[i], b.opaqueArgs[i]))
		}
		return r
	}
	a.check()
	b.check()
	if len(a.b) != len(b.b) {
		return constFalse
	}
	r := constTrue
	for i := range a.b {
		r = mkAnd(r, mkEq(a.b[i], b.b[i]))
		if r.isFalse() {
			return r
		}
	}
	return r
}

func (x *Exec) strLess(a, b *Str) *Term {
	a.check()
	b.check()
	// lexicographic a < b
	n := len(a.b)
	if len(b.b) < n {
		n = len(b.b)
	}
	res := mkBool(len(a.b) < len(b.b))
	for i := n - 1; i >= 0; i-- {
		res = mkIte(mkEq(a.b[i], b.b[i]), res, mkCmp(OpUlt, a.b[i], b.b[i]))
	}
	return res
}

func (x *Exec) strBinop(op token.Token, a, b *Str) Value {
	switch op {
	case token.ADD:
		if len(a.b) == 0 && a.opaque == "" && a.inj == nil {
			return b
		}
		if len(b.b) == 0 && b.opaque == "" && b.inj == nil {
			return a
		}
		if a.opaque != "" || b.opaque != "" || a.inj != nil || b.inj != nil {
			return &Str{opaque: "concat(" + a.opaque + b.opaque + ")"}
		}
		n := make([]*Term, 0, len(a.b)+len(b.b))
		n = append(n, a.b...)
		n = append(n, b.b...)
		return &Str{b: n}
	case token.EQL:
		return x.strEq(a, b)
	case token.NEQ:
		return mkNot(x.strEq(a, b))
	case token.LSS:
		return x.strLess(a, b)
	case token.GTR:
		return x.strLess(b, a)
	case token.LEQ:
		return mkNot(x.strLess(b, a))
	case token.GEQ:
		return mkNot(x.strLess(a, b))
	}
	panic(fmt.Sprintf("string binop %s", op))
}

// valEq is Go's == on non-scalar values.
func (x *Exec) valEq(a, b Value) *Term {
	switch av := a.(type) {
	case *Term:
		return mkEq(av, b.(*Term))
	case *Str:
		return x.strEq(av, b.(*Str))
	case Float:
		return mkBool(av.f == b.(Float).f)
	case Ptr:
		bp, ok := b.(Ptr)
		if !ok {
			if _, isO := b.(Opaque); isO {
				panic(unsupported{"comparison with opaque pointer"})
			}
			panic(fmt.Sprintf("ptr == %T", b))
		}
		if av.o != bp.o {
			return constFalse
		}
		if av.o == nil {
			return constTrue
		}
		if av.sym != nil || bp.sym != nil {
			panic(unsupported{"comparison of symbolic-index pointers"})
		}
		if len(av.path) != len(bp.path) {
			return constFalse
		}
		for i := range av.path {
			if av.path[i] != bp.path[i] {
				return constFalse
			}
		}
		return constTrue
	case Slice:
		bs := b.(Slice)
		// only comparison with nil is legal
		if bs.isNil && bs.o == nil {
			return mkBool(av.isNil)
		}
		if av.isNil && av.o == nil {
			return mkBool(bs.isNil)
		}
		panic("slice comparison")
	case *MapObj:
		return mkBool(av == b.(*MapObj))
	case *ChanObj:
		return mkBool(av == b.(*ChanObj))
	case *Closure:
		bc, _ := b.(*Closure)
		if av == nil || bc == nil {
			return mkBool(av == nil && bc == nil)
		}
		panic("func comparison")
	case Iface:
		bi, ok := b.(Iface)
		if !ok {
			panic(fmt.Sprintf("iface == %T", b))
		}
		if av.t == nil || bi.t == nil {
			return mkBool(av.t == nil && bi.t == nil)
		}
		if !types.Identical(av.t, bi.t) {
			return constFalse
		}
		if !types.Comparable(av.t) {
			panic(&goPanic{msg: "comparing uncomparable type " + av.t.String(), runtime: true})
		}
		return x.valEq(av.v, bi.v)
	case *Agg:
		ba := b.(*Agg)
		r := constTrue
		for i := range av.e {
			r = mkAnd(r, x.valEq(av.e[i], ba.e[i]))
			if r.isFalse() {
				return r
			}
		}
		return r
	case BigVal:
		return mkEq(av.t, b.(BigVal).t)
	case ReflType:
		bt, ok := b.(ReflType)
		return mkBool(ok && types.Identical(av.t, bt.t))
	case Opaque:
		panic(unsupported{"comparison of opaque value: " + av.why})
	}
	panic(fmt.Sprintf("valEq %T", a))
}

// ---- conversion ----

func (x *Exec) convert(v Value, from, to types.Type) Value {
	fu, tu := from.Underlying(), to.Underlying()
	if tw, _, ok := isWidthType(to); ok && tw != WBool {
		switch s := v.(type) {
		case *Term:
			_, fsigned, _ := isWidthType(from)
			if fsigned {
				return mkSExt(s, tw)
			}
			return mkZExt(s, tw)
		case Float:
			return mkBV(tw, uint64(int64(s.f)))
		case Ptr:
			// unsafe.Pointer -> uintptr
			panic(unsupported{"pointer to integer conversion"})
		}
	}
	if isFloat(to) {
		switch s := v.(type) {
		case Float:
			if tu.(*types.Basic).Kind() == types.Float32 {
				return Float{float64(float32(s.f))}
			}
			return s
		case *Term:
			if !s.isConst() {
				panic(unsupported{"symbolic int to float"})
			}
			_, fsigned, _ := isWidthType(from)
			if fsigned {
				return Float{float64(signExt(s.k, s.w))}
			}
			return Float{float64(s.k)}
		}
	}
	if isString(to) {
		switch s := v.(type) {
		case *Str:
			return s
		case Slice:
			// []byte or []rune -> string
			el := fu.(*types.Slice).Elem().Underlying().(*types.Basic)
			if el.Kind() == types.Uint8 {
				b := make([]*Term, s.len)
				for i := 0; i < s.len; i++ {
					b[i] = termOf(s.get(i))
				}
				return &Str{b: b}
			}
			// []rune
			var out []*Term
			for i := 0; i < s.len; i++ {
				r := termOf(s.get(i))
				if !r.isConst() {
					out = append(out, x.encodeRune(r)...)
					continue
				}
				for _, c := range []byte(string(rune(int32(r.k)))) {
					out = append(out, mkBV(8, uint64(c)))
				}
			}
			return &Str{b: out}
		case *Term:
			// string(rune)
			if !s.isConst() {
				// ASCII fast path: if < 0x80 single byte
				lt := mkCmp(OpUlt, mkZExt(s, 64), mkBV(64, 0x80))
				if s.w < 64 {
					lt = mkCmp(OpUlt, s, mkBV(s.w, 0x80))
				}
				if x.ps.decide(lt, "string(rune)") {
					return &Str{b: []*Term{mkExtract(s, 0, 8)}}
				}
				if s.w < 32 {
					s = mkZExt(s, 32)
				} else if s.w > 32 {
					// out-of-range values become U+FFFD
					inRange := mkCmp(OpUle, s, mkBV(s.w, 0x10FFFF))
					if !x.ps.decide(inRange, "string(rune) range") {
						return strConst("\uFFFD")
					}
					s = mkExtract(s, 0, 32)
				}
				return &Str{b: x.encodeRune(s)}
			}
			return strConst(string(rune(int32(signExt(s.k, s.w)))))
		}
	}
	if ts, ok := tu.(*types.Slice); ok {
		if s, ok := v.(*Str); ok {
			s.check()
			el := ts.Elem().Underlying().(*types.Basic)
			if el.Kind() == types.Uint8 {
				a := &Agg{e: make([]Value, len(s.b))}
				for i, t := range s.b {
					a.e[i] = t
				}
				return Slice{o: newObj(a), len: len(s.b), cap: len(s.b)}
			}
			cs, okc := s.concrete()
			if !okc {
				var rs []Value
				dec := x.findFunc("unicode/utf8", "DecodeRuneInString")
				for pos := 0; pos < len(s.b); {
					tu := x.callFunction(dec, []Value{&Str{b: s.b[pos:]}}, nil, nil).(Tuple)
					rs = append(rs, tu[0])
					pos += int(x.ps.concretize(termOf(tu[1]), "rune size"))
				}
				return Slice{o: newObj(&Agg{e: rs}), len: len(rs), cap: len(rs)}
			}
			rs := []rune(cs)
			a := &Agg{e: make([]Value, len(rs))}
			for i, r := range rs {
				a.e[i] = mkBV(32, uint64(r))
			}
			return Slice{o: newObj(a), len: len(rs), cap: len(rs)}
		}
	}
	// pointer <-> unsafe.Pointer
	if _, ok := v.(Ptr); ok {
		return v
	}
	if tb, ok := tu.(*types.Basic); ok && tb.Kind() == types.UnsafePointer {
		panic(unsupported{"integer to unsafe.Pointer"})
	}
	panic(unsupported{fmt.Sprintf("convert %s -> %s (%T)", from, to, v)})
}

// encodeRune runs the real utf8.AppendRune on a symbolic rune.
func (x *Exec) encodeRune(r *Term) []*Term {
	app := x.findFunc("unicode/utf8", "AppendRune")
	res := x.callFunction(app, []Value{Slice{isNil: true}, r}, nil, nil).(Slice)
	return sliceTerms(res)
}

// ---- indexing ----

func (x *Exec) boundsCheck(idx *Term, n int, what string) {
	// idx is a 64-bit (sign- or zero-extended) index; valid iff idx <u n
	c := mkCmp(OpUlt, idx, mkBV(64, uint64(n)))
	if !x.ps.decide(c, "bounds") {
		panic(&goPanic{msg: fmt.Sprintf("index out of range [%s] with length %d (%s)", idx, n, what), runtime: true})
	}
}

func (x *Exec) idx64(v Value, t types.Type) *Term {
	tm := termOf(v)
	_, signed, _ := isWidthType(t)
	if signed {
		return mkSExt(tm, 64)
	}
	return mkZExt(tm, 64)
}

func (x *Exec) indexValue(fr *frame, i *ssa.Index) Value {
	xv := x.get(fr, i.X)
	idx := x.idx64(x.get(fr, i.Index), i.Index.Type())
	switch c := xv.(type) {
	case *Str:
		c.check()
		x.boundsCheck(idx, len(c.b), "string")
		if idx.isConst() {
			return c.b[idx.k]
		}
		return iteChain(idx, c.b)
	case *Agg:
		x.boundsCheck(idx, len(c.e), "array")
		if idx.isConst() {
			return c.e[idx.k]
		}
		ts := make([]*Term, len(c.e))
		for k, e := range c.e {
			t, ok := e.(*Term)
			if !ok {
				kk := x.ps.concretize(idx, "index")
				return c.e[kk]
			}
			ts[k] = t
		}
		return iteChain(idx, ts)
	}
	panic(fmt.Sprintf("Index on %T", xv))
}

func iteChain(idx *Term, elems []*Term) *Term {
	var res *Term
	for k := len(elems) - 1; k >= 0; k-- {
		if res == nil {
			res = elems[k]
		} else {
			res = mkIte(mkEq(idx, mkBV(64, uint64(k))), elems[k], res)
		}
	}
	return res
}

func (x *Exec) indexAddr(fr *frame, i *ssa.IndexAddr) Value {
	xv := x.get(fr, i.X)
	idx := x.idx64(x.get(fr, i.Index), i.Index.Type())
	switch c := xv.(type) {
	case Slice:
		x.boundsCheck(idx, c.len, "slice in "+fr.fn.Name())
		if idx.isConst() {
			return c.elemPtr(int(idx.k))
		}
		if c.len > 0 {
			if _, scalar := c.get(0).(*Term); scalar {
				np := make([]int, len(c.path)+1)
				copy(np, c.path)
				np[len(c.path)] = -1
				return Ptr{o: c.o, path: np, sym: &symIdx{idx: idx, base: c.off, n: c.len}}
			}
		}
		k := x.ps.concretize(idx, "index")
		return c.elemPtr(int(k))
	case Ptr:
		if c.isNil() {
			panic(&goPanic{msg: "nil pointer dereference (index)", runtime: true})
		}
		if c.sym != nil {
			c = x.concretizePtr(c)
		}
		arr, ok := x.peek(c).(*Agg)
		if !ok {
			panic(fmt.Sprintf("IndexAddr through pointer to %T", x.peek(c)))
		}
		x.boundsCheck(idx, len(arr.e), "array")
		if idx.isConst() {
			return c.child(int(idx.k))
		}
		if len(arr.e) > 0 {
			if _, scalar := arr.e[0].(*Term); scalar {
				np := make([]int, len(c.path)+1)
				copy(np, c.path)
				np[len(c.path)] = -1
				return Ptr{o: c.o, path: np, sym: &symIdx{idx: idx, base: 0, n: len(arr.e)}}
			}
		}
		k := x.ps.concretize(idx, "index")
		return c.child(int(k))
	}
	panic(fmt.Sprintf("IndexAddr on %T", xv))
}

func (x *Exec) makeSlice(fr *frame, i *ssa.MakeSlice) Value {
	lt := x.idx64(x.get(fr, i.Len), i.Len.Type())
	ct := x.idx64(x.get(fr, i.Cap), i.Cap.Type())
	n := x.allocSize(lt, "make len in "+fr.fn.String())
	c := n
	if ct != lt {
		c = x.allocSize(ct, "make cap in "+fr.fn.String())
	}
	if c < n {
		panic(&goPanic{msg: "makeslice: cap out of range", runtime: true})
	}
	elem := i.Type().Underlying().(*types.Slice).Elem()
	return newSlice(func() Value { return zeroValue(elem) }, n, c)
}

// allocSize resolves a (possibly symbolic) allocation size, applying the
// allocation monitor.
func (x *Exec) allocSize(t *Term, where string) int {
	if t.isConst() {
		v := signExt(t.k, 64)
		if v < 0 {
			panic(&goPanic{msg: "makeslice: len out of range", runtime: true})
		}
		if v > x.allocLimit {
			if x.initing {
				panic(unsupported{"huge allocation in init"})
			}
			panic(&violation{Kind: "alloc", Msg: fmt.Sprintf("ALLOC-MONITOR: allocation of %d elements (%s)", v, where)})
		}
		return int(v)
	}
	if x.ps.decide(mkCmp(OpSlt, t, mkBV(64, 0)), "makeneg") {
		panic(&goPanic{msg: "makeslice: len out of range", runtime: true})
	}
	if x.ps.decide(mkCmp(OpSlt, mkBV(64, uint64(x.allocLimit)), t), "alloc-monitor") {
		panic(&violation{Kind: "alloc", Msg: fmt.Sprintf("ALLOC-MONITOR: input-controlled allocation above %d elements (%s)", x.allocLimit, where)})
	}
	return int(x.ps.concretize(t, "alloc"))
}

func (x *Exec) sliceOp(fr *frame, i *ssa.Slice) Value {
	xv := x.get(fr, i.X)
	var length, capacity int
	switch c := xv.(type) {
	case *Str:
		c.check()
		length, capacity = len(c.b), len(c.b)
	case Slice:
		length, capacity = c.len, c.cap
	case Ptr:
		if c.isNil() {
			panic(&goPanic{msg: "nil pointer dereference (slice of nil *array)", runtime: true})
		}
		arr := x.peek(c).(*Agg)
		length, capacity = len(arr.e), len(arr.e)
	default:
		panic(fmt.Sprintf("Slice on %T", xv))
	}
	lo, hi, max := 0, length, capacity
	var lot, hit, maxt *Term
	if i.Low != nil {
		lot = x.idx64(x.get(fr, i.Low), i.Low.Type())
	} else {
		lot = mkBV(64, 0)
	}
	if i.High != nil {
		hit = x.idx64(x.get(fr, i.High), i.High.Type())
	} else {
		hit = mkBV(64, uint64(length))
	}
	if i.Max != nil {
		maxt = x.idx64(x.get(fr, i.Max), i.Max.Type())
	} else {
		maxt = mkBV(64, uint64(capacity))
	}
	// 0 <= lo <= hi <= max <= cap   (unsigned compare handles negatives)
	ok := mkAnd(mkCmp(OpUle, lot, hit), mkAnd(mkCmp(OpUle, hit, maxt), mkCmp(OpUle, maxt, mkBV(64, uint64(capacity)))))
	if _, isStr := xv.(*Str); isStr {
		ok = mkAnd(mkCmp(OpUle, lot, hit), mkCmp(OpUle, hit, mkBV(64, uint64(length))))
	}
	if !x.ps.decide(ok, "slicebounds") {
		panic(&goPanic{msg: fmt.Sprintf("slice bounds out of range [%s:%s] cap %d in %s", lot, hit, capacity, fr.fn.Name()), runtime: true})
	}
	lo = int(x.ps.concretize(lot, "slice-lo"))
	hi = int(x.ps.concretize(hit, "slice-hi"))
	max = int(x.ps.concretize(maxt, "slice-max"))
	switch c := xv.(type) {
	case *Str:
		return &Str{b: c.b[lo:hi]}
	case Slice:
		if c.isNil {
			return Slice{isNil: true}
		}
		return Slice{o: c.o, path: c.path, off: c.off + lo, len: hi - lo, cap: max - lo}
	case Ptr:
		if c.sym != nil {
			c = x.concretizePtr(c)
		}
		return Slice{o: c.o, path: c.path, off: lo, len: hi - lo, cap: max - lo}
	}
	panic("unreachable")
}

// ---- maps ----

func (x *Exec) keyEq(a, b Value) *Term {
	return x.valEq(a, b)
}

func (x *Exec) mapFind(m *MapObj, k Value) *mapEntry {
	if m == nil {
		return nil
	}
	if ik, ok := k.(Iface); ok && ik.t != nil && !types.Comparable(ik.t) {
		panic(&goPanic{msg: "hash of unhashable type " + ik.t.String(), runtime: true})
	}
	for _, e := range m.entries {
		if e.deleted {
			continue
		}
		c := x.keyEq(e.k, k)
		if x.ps.decide(c, "mapkey") {
			return e
		}
	}
	return nil
}

func (x *Exec) mapSet(m *MapObj, k, v Value) {
	if e := x.mapFind(m, k); e != nil {
		e.v = copyVal(v)
		return
	}
	m.entries = append(m.entries, &mapEntry{k: copyVal(k), v: copyVal(v)})
}

func (x *Exec) mapLen(m *MapObj) int {
	if m == nil {
		return 0
	}
	n := 0
	for _, e := range m.entries {
		if !e.deleted {
			n++
		}
	}
	return n
}

func (x *Exec) lookup(fr *frame, i *ssa.Lookup) Value {
	xv := x.get(fr, i.X)
	switch c := xv.(type) {
	case *MapObj:
		k := x.get(fr, i.Index)
		e := x.mapFind(c, k)
		var v Value
		if e != nil {
			v = copyVal(e.v)
		} else {
			v = zeroValue(i.X.Type().Underlying().(*types.Map).Elem())
		}
		if i.CommaOk {
			return Tuple{v, mkBool(e != nil)}
		}
		return v
	case *Str:
		idx := x.idx64(x.get(fr, i.Index), i.Index.Type())
		x.boundsCheck(idx, len(c.b), "string")
		if idx.isConst() {
			return c.b[idx.k]
		}
		return iteChain(idx, c.b)
	case Opaque:
		panic(unsupported{"lookup in opaque map: " + c.why})
	}
	panic(fmt.Sprintf("Lookup on %T", xv))
}

func (x *Exec) makeRange(v Value) Value {
	switch c := v.(type) {
	case *Str:
		c.check()
		return &RangeIter{str: c}
	case *MapObj:
		it := &RangeIter{m: c}
		if c != nil {
			for _, e := range c.entries {
				if !e.deleted {
					it.keys = append(it.keys, e)
				}
			}
			if x.mapNondet && len(it.keys) > 1 {
				if len(it.keys) > 5 {
					panic(unsupported{"nondeterministic map order over more than 5 entries"})
				}
				// choose a permutation with free Boolean choices
				rest := it.keys
				var perm []*mapEntry
				for len(rest) > 1 {
					pick := len(rest) - 1
					for k := 0; k < len(rest)-1; k++ {
						c := x.ps.freshBool("maporder")
						if x.ps.decide(c, "maporder") {
							pick = k
							break
						}
					}
					perm = append(perm, rest[pick])
					nr := make([]*mapEntry, 0, len(rest)-1)
					nr = append(nr, rest[:pick]...)
					nr = append(nr, rest[pick+1:]...)
					rest = nr
				}
				perm = append(perm, rest[0])
				it.keys = perm
			}
		}
		return it
	case Opaque:
		panic(unsupported{"range over opaque: " + c.why})
	}
	panic(fmt.Sprintf("range over %T", v))
}

func (x *Exec) rangeNext(fr *frame, i *ssa.Next) Value {
	it := x.get(fr, i.Iter).(*RangeIter)
	if i.IsString {
		if it.pos >= len(it.str.b) {
			return Tuple{constFalse, mkBV(64, 0), mkBV(32, 0)}
		}
		// decode a rune at pos by executing the real utf8.DecodeRuneInString
		rest := &Str{b: it.str.b[it.pos:]}
		var r *Term
		var size int
		if rest.b[0].isConst() && rest.b[0].k < 0x80 {
			r, size = mkBV(32, rest.b[0].k), 1
		} else {
			dec := x.findFunc("unicode/utf8", "DecodeRuneInString")
			tu := x.callFunction(dec, []Value{rest}, nil, fr).(Tuple)
			r = termOf(tu[0])
			size = int(x.ps.concretize(termOf(tu[1]), "rune size"))
		}
		pos := it.pos
		it.pos += size
		return Tuple{constTrue, mkBV(64, uint64(pos)), r}
	}
	for it.i < len(it.keys) {
		e := it.keys[it.i]
		it.i++
		if e.deleted {
			continue
		}
		return Tuple{constTrue, copyVal(e.k), copyVal(e.v)}
	}
	tup := i.Type().(*types.Tuple)
	return Tuple{constFalse, zeroOrNil(tup.At(1).Type()), zeroOrNil(tup.At(2).Type())}
}

func zeroOrNil(t types.Type) Value {
	if b, ok := t.(*types.Basic); ok && b.Kind() == types.Invalid {
		return nil
	}
	return zeroValue(t)
}

// decodeRune decodes the first UTF-8 sequence (forking on symbolic lead bytes).
func (x *Exec) decodeRune(b []*Term) (*Term, int) {
	b0 := b[0]
	if x.ps.decide(mkCmp(OpUlt, b0, mkBV(8, 0x80)), "utf8-ascii") {
		return mkZExt(b0, 32), 1
	}
	// multi-byte: concretize bytes of the sequence (rare in our harnesses)
	c0 := byte(x.ps.concretize(mkZExt(b0, 64), "utf8-b0"))
	need := 0
	switch {
	case c0 >= 0xC2 && c0 <= 0xDF:
		need = 2
	case c0 >= 0xE0 && c0 <= 0xEF:
		need = 3
	case c0 >= 0xF0 && c0 <= 0xF4:
		need = 4
	default:
		return mkBV(32, 0xFFFD), 1
	}
	if len(b) < need {
		return mkBV(32, 0xFFFD), 1
	}
	bs := []byte{c0}
	for k := 1; k < need; k++ {
		bs = append(bs, byte(x.ps.concretize(mkZExt(b[k], 64), "utf8-cont")))
	}
	r, size := decodeRuneBytes(bs)
	return mkBV(32, uint64(r)), size
}

// ---- type assertions ----

func (x *Exec) typeAssert(i *ssa.TypeAssert, v Value) Value {
	ifc, ok := v.(Iface)
	if !ok {
		panic(fmt.Sprintf("typeassert on %T", v))
	}
	target := i.AssertedType
	okk := false
	var res Value
	if ifc.t != nil {
		if ifc.t == opaqueType {
			panic(unsupported{"type assertion on opaque interface value"})
		}
		if types.IsInterface(target) {
			ti := target.Underlying().(*types.Interface)
			if types.Implements(ifc.t, ti) {
				okk = true
				res = ifc
			}
		} else if types.Identical(ifc.t, target) {
			okk = true
			res = ifc.v
		}
	}
	if i.CommaOk {
		if !okk {
			res = zeroValue(target)
		}
		return Tuple{res, mkBool(okk)}
	}
	if !okk {
		ts := "nil"
		if ifc.t != nil {
			ts = ifc.t.String()
		}
		panic(&goPanic{msg: "interface conversion: interface is " + ts + ", not " + target.String(), runtime: true})
	}
	return res
}

var _ = big.NewInt
