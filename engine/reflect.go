package main

// A model of the part of package reflect that encoding/asn1's marshaller and
// parser use (DESIGN §M3): reflect.Type is the go/types type of the SSA program,
// reflect.Value a (type, value[, address]) triple over the executor's own values.
// Everything outside this list stays a cut call.

import (
	"fmt"
	"go/token"
	"go/types"
	"reflect"

	"golang.org/x/tools/go/ssa"
)

// ReflType is the value behind a reflect.Type interface.
type ReflType struct{ t types.Type }

// ReflVal is a reflect.Value. addr != nil: addressable (and settable) location.
type ReflVal struct {
	t    types.Type // nil: the zero (invalid) Value
	v    Value
	addr *Ptr
}

var reflMarker = types.NewPointer(types.NewNamed(types.NewTypeName(token.NoPos, nil, "reflect·rtype", nil), types.NewStruct(nil, nil), nil))

func reflTypeIface(t types.Type) Iface {
	if t == nil {
		return Iface{}
	}
	return Iface{t: reflMarker, v: ReflType{t}}
}

func asReflType(v Value) types.Type {
	ifc, ok := v.(Iface)
	if !ok || ifc.t == nil {
		panic(&goPanic{msg: "nil reflect.Type", runtime: true})
	}
	rt, ok := ifc.v.(ReflType)
	if !ok {
		panic(unsupported{fmt.Sprintf("reflect.Type backed by %T", ifc.v)})
	}
	return rt.t
}

func asReflVal(v Value) ReflVal {
	switch r := v.(type) {
	case ReflVal:
		return r
	case *Agg: // zero reflect.Value struct
		return ReflVal{}
	}
	panic(unsupported{fmt.Sprintf("reflect.Value backed by %T", v)})
}

func (r ReflVal) get() Value {
	if r.addr != nil {
		return r.addr.load()
	}
	return r.v
}

func (r ReflVal) mustSettable(op string) {
	if r.addr == nil {
		panic(&goPanic{msg: "reflect: reflect.Value." + op + " using unaddressable value", runtime: true})
	}
}

func reflKind(t types.Type) reflect.Kind {
	switch u := t.Underlying().(type) {
	case *types.Basic:
		switch u.Kind() {
		case types.Bool, types.UntypedBool:
			return reflect.Bool
		case types.Int, types.UntypedInt:
			return reflect.Int
		case types.Int8:
			return reflect.Int8
		case types.Int16:
			return reflect.Int16
		case types.Int32, types.UntypedRune:
			return reflect.Int32
		case types.Int64:
			return reflect.Int64
		case types.Uint:
			return reflect.Uint
		case types.Uint8:
			return reflect.Uint8
		case types.Uint16:
			return reflect.Uint16
		case types.Uint32:
			return reflect.Uint32
		case types.Uint64:
			return reflect.Uint64
		case types.Uintptr:
			return reflect.Uintptr
		case types.Float32:
			return reflect.Float32
		case types.Float64, types.UntypedFloat:
			return reflect.Float64
		case types.String, types.UntypedString:
			return reflect.String
		case types.UnsafePointer:
			return reflect.UnsafePointer
		}
	case *types.Pointer:
		return reflect.Ptr
	case *types.Slice:
		return reflect.Slice
	case *types.Array:
		return reflect.Array
	case *types.Struct:
		return reflect.Struct
	case *types.Interface:
		return reflect.Interface
	case *types.Map:
		return reflect.Map
	case *types.Chan:
		return reflect.Chan
	case *types.Signature:
		return reflect.Func
	}
	panic(unsupported{"reflect kind of " + t.String()})
}

func kindTerm(k reflect.Kind) *Term { return mkBV(64, uint64(k)) }

func typeNameOf(t types.Type) string {
	if n, ok := t.(*types.Named); ok {
		return n.Obj().Name()
	}
	if a, ok := t.(*types.Alias); ok {
		return a.Obj().Name()
	}
	if b, ok := t.(*types.Basic); ok {
		return b.Name()
	}
	return ""
}

func typeStringOf(t types.Type) string {
	return types.TypeString(t, func(p *types.Package) string { return p.Name() })
}

func (x *Exec) reflStructField(st *types.Struct, i int) Value {
	pkg := x.prog.ImportedPackage("reflect")
	if pkg == nil {
		panic(unsupported{"reflect package not loaded"})
	}
	sf := pkg.Type("StructField").Type().Underlying().(*types.Struct)
	f := st.Field(i)
	a := &Agg{e: make([]Value, sf.NumFields())}
	for k := 0; k < sf.NumFields(); k++ {
		switch sf.Field(k).Name() {
		case "Name":
			a.e[k] = strConst(f.Name())
		case "PkgPath":
			if f.Exported() {
				a.e[k] = strConst("")
			} else if f.Pkg() != nil {
				a.e[k] = strConst(f.Pkg().Path())
			} else {
				a.e[k] = strConst("?")
			}
		case "Type":
			a.e[k] = reflTypeIface(f.Type())
		case "Tag":
			a.e[k] = strConst(st.Tag(i))
		case "Anonymous":
			a.e[k] = mkBool(f.Embedded())
		default:
			a.e[k] = zeroValue(sf.Field(k).Type())
		}
	}
	return a
}

// reflTypeMethod implements the reflect.Type interface methods.
func (x *Exec) reflTypeMethod(rt ReflType, name string, args []Value) Value {
	t := rt.t
	switch name {
	case "Kind":
		return kindTerm(reflKind(t))
	case "Name":
		return strConst(typeNameOf(t))
	case "String":
		return strConst(typeStringOf(t))
	case "PkgPath":
		if n, ok := t.(*types.Named); ok && n.Obj().Pkg() != nil {
			return strConst(n.Obj().Pkg().Path())
		}
		return strConst("")
	case "Elem":
		switch u := t.Underlying().(type) {
		case *types.Pointer:
			return reflTypeIface(u.Elem())
		case *types.Slice:
			return reflTypeIface(u.Elem())
		case *types.Array:
			return reflTypeIface(u.Elem())
		case *types.Map:
			return reflTypeIface(u.Elem())
		case *types.Chan:
			return reflTypeIface(u.Elem())
		}
		panic(&goPanic{msg: "reflect: Elem of invalid type " + typeStringOf(t), runtime: true})
	case "NumField":
		st, ok := t.Underlying().(*types.Struct)
		if !ok {
			panic(&goPanic{msg: "reflect: NumField of non-struct type " + typeStringOf(t), runtime: true})
		}
		return mkBV(64, uint64(st.NumFields()))
	case "Field":
		st, ok := t.Underlying().(*types.Struct)
		if !ok {
			panic(&goPanic{msg: "reflect: Field of non-struct type " + typeStringOf(t), runtime: true})
		}
		i, ok := concreteInt(args[0])
		if !ok || i < 0 || int(i) >= st.NumFields() {
			panic(&goPanic{msg: "reflect: Field index out of bounds", runtime: true})
		}
		return x.reflStructField(st, int(i))
	case "NumMethod":
		switch u := t.Underlying().(type) {
		case *types.Interface:
			return mkBV(64, uint64(u.NumMethods()))
		}
		n := 0
		ms := x.prog.MethodSets.MethodSet(t)
		for i := 0; i < ms.Len(); i++ {
			if ms.At(i).Obj().Exported() {
				n++
			}
		}
		return mkBV(64, uint64(n))
	case "Size":
		return mkBV(64, uint64(sizesOf(t)))
	case "Comparable":
		return mkBool(types.Comparable(t))
	}
	panic(unsupported{"reflect.Type." + name})
}

var stdSizes = types.SizesFor("gc", "amd64")

func sizesOf(t types.Type) int64 { return stdSizes.Sizeof(t) }

func (x *Exec) reflZero(t types.Type) Value { return zeroValue(t) }

// deepEq is reflect.DeepEqual over executor values of identical static type.
func (x *Exec) deepEq(t types.Type, a, b Value) *Term {
	switch u := t.Underlying().(type) {
	case *types.Interface:
		ai, bi := a.(Iface), b.(Iface)
		if ai.t == nil || bi.t == nil {
			return mkBool(ai.t == nil && bi.t == nil)
		}
		if !types.Identical(ai.t, bi.t) {
			return constFalse
		}
		return x.deepEq(ai.t, ai.v, bi.v)
	case *types.Slice:
		as, bs := a.(Slice), b.(Slice)
		if (as.isNil && as.o == nil) != (bs.isNil && bs.o == nil) {
			return constFalse
		}
		if as.len != bs.len {
			return constFalse
		}
		r := constTrue
		for i := 0; i < as.len; i++ {
			r = mkAnd(r, x.deepEq(u.Elem(), as.get(i), bs.get(i)))
		}
		return r
	case *types.Array:
		aa, ba := a.(*Agg), b.(*Agg)
		r := constTrue
		for i := range aa.e {
			r = mkAnd(r, x.deepEq(u.Elem(), aa.e[i], ba.e[i]))
		}
		return r
	case *types.Struct:
		if isBigInt(t) {
			return mkEq(a.(BigVal).t, b.(BigVal).t)
		}
		aa, ba := a.(*Agg), b.(*Agg)
		r := constTrue
		for i := range aa.e {
			r = mkAnd(r, x.deepEq(u.Field(i).Type(), aa.e[i], ba.e[i]))
		}
		return r
	case *types.Pointer:
		ap, bp := a.(Ptr), b.(Ptr)
		if ap.isNil() || bp.isNil() {
			return mkBool(ap.isNil() && bp.isNil())
		}
		if x.valEq(ap, bp).isTrue() {
			return constTrue
		}
		return x.deepEq(u.Elem(), ap.load(), bp.load())
	}
	return x.valEq(a, b)
}

func init() {
	I := intrinsics
	V := "(reflect.Value)."
	I["reflect.TypeOf"] = func(x *Exec, c *frame, fn *ssa.Function, a []Value) Value {
		return reflTypeIface(a[0].(Iface).t)
	}
	I["reflect.ValueOf"] = func(x *Exec, c *frame, fn *ssa.Function, a []Value) Value {
		ifc := a[0].(Iface)
		if ifc.t == nil {
			return ReflVal{}
		}
		return ReflVal{t: ifc.t, v: ifc.v}
	}
	I["reflect.Zero"] = func(x *Exec, c *frame, fn *ssa.Function, a []Value) Value {
		t := asReflType(a[0])
		return ReflVal{t: t, v: zeroValue(t)}
	}
	I["reflect.New"] = func(x *Exec, c *frame, fn *ssa.Function, a []Value) Value {
		t := asReflType(a[0])
		return ReflVal{t: types.NewPointer(t), v: Ptr{o: newObj(zeroValue(t))}}
	}
	I["reflect.PtrTo"] = func(x *Exec, c *frame, fn *ssa.Function, a []Value) Value {
		return reflTypeIface(types.NewPointer(asReflType(a[0])))
	}
	I["reflect.PointerTo"] = I["reflect.PtrTo"]
	I["reflect.MakeSlice"] = func(x *Exec, c *frame, fn *ssa.Function, a []Value) Value {
		t := asReflType(a[0])
		st, ok := t.Underlying().(*types.Slice)
		if !ok {
			panic(&goPanic{msg: "reflect.MakeSlice of non-slice type", runtime: true})
		}
		n, ok1 := concreteInt(a[1])
		cp, ok2 := concreteInt(a[2])
		if !ok1 || !ok2 {
			panic(unsupported{"reflect.MakeSlice with symbolic length"})
		}
		if n < 0 || cp < n {
			panic(&goPanic{msg: "reflect.MakeSlice: bad len/cap", runtime: true})
		}
		if cp > x.allocLimit {
			panic(unsupported{"reflect.MakeSlice above the allocation limit"})
		}
		return ReflVal{t: t, v: newSlice(func() Value { return zeroValue(st.Elem()) }, int(n), int(cp))}
	}
	I["reflect.Copy"] = func(x *Exec, c *frame, fn *ssa.Function, a []Value) Value {
		dst, src := asReflVal(a[0]), asReflVal(a[1])
		ds, ok1 := dst.get().(Slice)
		var n int
		switch sv := src.get().(type) {
		case Slice:
			if !ok1 {
				panic(unsupported{"reflect.Copy into non-slice"})
			}
			n = ds.len
			if sv.len < n {
				n = sv.len
			}
			for i := 0; i < n; i++ {
				ds.set(i, sv.get(i))
			}
		default:
			panic(unsupported{fmt.Sprintf("reflect.Copy from %T", sv)})
		}
		return mkBV(64, uint64(n))
	}
	I["reflect.DeepEqual"] = func(x *Exec, c *frame, fn *ssa.Function, a []Value) Value {
		ai, bi := a[0].(Iface), a[1].(Iface)
		if ai.t == nil || bi.t == nil {
			return mkBool(ai.t == nil && bi.t == nil)
		}
		if !types.Identical(ai.t, bi.t) {
			return constFalse
		}
		return x.deepEq(ai.t, ai.v, bi.v)
	}
	I[V+"IsValid"] = func(x *Exec, c *frame, fn *ssa.Function, a []Value) Value {
		return mkBool(asReflVal(a[0]).t != nil)
	}
	I[V+"Type"] = func(x *Exec, c *frame, fn *ssa.Function, a []Value) Value {
		r := asReflVal(a[0])
		if r.t == nil {
			panic(&goPanic{msg: "reflect: call of reflect.Value.Type on zero Value", runtime: true})
		}
		return reflTypeIface(r.t)
	}
	I[V+"Kind"] = func(x *Exec, c *frame, fn *ssa.Function, a []Value) Value {
		r := asReflVal(a[0])
		if r.t == nil {
			return kindTerm(reflect.Invalid)
		}
		return kindTerm(reflKind(r.t))
	}
	I[V+"CanSet"] = func(x *Exec, c *frame, fn *ssa.Function, a []Value) Value {
		return mkBool(asReflVal(a[0]).addr != nil)
	}
	I[V+"CanAddr"] = I[V+"CanSet"]
	I[V+"CanInterface"] = func(x *Exec, c *frame, fn *ssa.Function, a []Value) Value { return constTrue }
	I[V+"Interface"] = func(x *Exec, c *frame, fn *ssa.Function, a []Value) Value {
		r := asReflVal(a[0])
		if r.t == nil {
			panic(&goPanic{msg: "reflect: call of reflect.Value.Interface on zero Value", runtime: true})
		}
		v := r.get()
		if _, isI := r.t.Underlying().(*types.Interface); isI {
			return v
		}
		return Iface{t: r.t, v: v}
	}
	I[V+"Addr"] = func(x *Exec, c *frame, fn *ssa.Function, a []Value) Value {
		r := asReflVal(a[0])
		r.mustSettable("Addr")
		return ReflVal{t: types.NewPointer(r.t), v: *r.addr}
	}
	I[V+"Elem"] = func(x *Exec, c *frame, fn *ssa.Function, a []Value) Value {
		r := asReflVal(a[0])
		switch u := r.t.Underlying().(type) {
		case *types.Pointer:
			p := r.get().(Ptr)
			if p.isNil() {
				return ReflVal{}
			}
			return ReflVal{t: u.Elem(), addr: &p}
		case *types.Interface:
			ifc := r.get().(Iface)
			if ifc.t == nil {
				return ReflVal{}
			}
			return ReflVal{t: ifc.t, v: ifc.v}
		}
		panic(&goPanic{msg: "reflect: call of reflect.Value.Elem on " + typeStringOf(r.t) + " Value", runtime: true})
	}
	I[V+"IsNil"] = func(x *Exec, c *frame, fn *ssa.Function, a []Value) Value {
		r := asReflVal(a[0])
		switch v := r.get().(type) {
		case Ptr:
			return mkBool(v.isNil())
		case Slice:
			return mkBool(v.isNil && v.o == nil)
		case Iface:
			return mkBool(v.t == nil)
		case *MapObj:
			return mkBool(v == nil)
		case *Closure:
			return mkBool(v == nil)
		case *ChanObj:
			return mkBool(v == nil)
		}
		panic(&goPanic{msg: "reflect: call of reflect.Value.IsNil on " + typeStringOf(r.t) + " Value", runtime: true})
	}
	I[V+"IsZero"] = func(x *Exec, c *frame, fn *ssa.Function, a []Value) Value {
		r := asReflVal(a[0])
		return x.deepEq(r.t, r.get(), zeroValue(r.t))
	}
	I[V+"Len"] = func(x *Exec, c *frame, fn *ssa.Function, a []Value) Value {
		r := asReflVal(a[0])
		switch v := r.get().(type) {
		case Slice:
			return mkBV(64, uint64(v.len))
		case *Str:
			v.check()
			return mkBV(64, uint64(len(v.b)))
		case *Agg:
			return mkBV(64, uint64(len(v.e)))
		}
		panic(unsupported{"reflect.Value.Len of " + typeStringOf(r.t)})
	}
	I[V+"Index"] = func(x *Exec, c *frame, fn *ssa.Function, a []Value) Value {
		r := asReflVal(a[0])
		i, ok := concreteInt(a[1])
		if !ok {
			panic(unsupported{"reflect.Value.Index with symbolic index"})
		}
		switch u := r.t.Underlying().(type) {
		case *types.Slice:
			s := r.get().(Slice)
			if i < 0 || int(i) >= s.len {
				panic(&goPanic{msg: "reflect: slice index out of range", runtime: true})
			}
			p := s.elemPtr(int(i))
			return ReflVal{t: u.Elem(), addr: &p}
		case *types.Array:
			if r.addr != nil {
				p := r.addr.child(int(i))
				return ReflVal{t: u.Elem(), addr: &p}
			}
			return ReflVal{t: u.Elem(), v: r.v.(*Agg).e[i]}
		}
		panic(unsupported{"reflect.Value.Index of " + typeStringOf(r.t)})
	}
	I[V+"NumField"] = func(x *Exec, c *frame, fn *ssa.Function, a []Value) Value {
		r := asReflVal(a[0])
		return mkBV(64, uint64(r.t.Underlying().(*types.Struct).NumFields()))
	}
	I[V+"Field"] = func(x *Exec, c *frame, fn *ssa.Function, a []Value) Value {
		r := asReflVal(a[0])
		st, ok := r.t.Underlying().(*types.Struct)
		if !ok {
			panic(&goPanic{msg: "reflect: call of reflect.Value.Field on " + typeStringOf(r.t) + " Value", runtime: true})
		}
		i, ok := concreteInt(a[1])
		if !ok || i < 0 || int(i) >= st.NumFields() {
			panic(&goPanic{msg: "reflect: Field index out of range", runtime: true})
		}
		ft := st.Field(int(i)).Type()
		if r.addr != nil {
			p := r.addr.child(int(i))
			return ReflVal{t: ft, addr: &p}
		}
		return ReflVal{t: ft, v: r.v.(*Agg).e[i]}
	}
	I[V+"String"] = func(x *Exec, c *frame, fn *ssa.Function, a []Value) Value {
		r := asReflVal(a[0])
		if r.t == nil {
			return strConst("<invalid Value>")
		}
		if s, ok := r.get().(*Str); ok {
			return s
		}
		return strConst("<" + typeStringOf(r.t) + " Value>")
	}
	I[V+"Bool"] = func(x *Exec, c *frame, fn *ssa.Function, a []Value) Value {
		return asReflVal(a[0]).get().(*Term)
	}
	I[V+"Int"] = func(x *Exec, c *frame, fn *ssa.Function, a []Value) Value {
		return mkSExt(asReflVal(a[0]).get().(*Term), 64)
	}
	I[V+"Uint"] = func(x *Exec, c *frame, fn *ssa.Function, a []Value) Value {
		return mkZExt(asReflVal(a[0]).get().(*Term), 64)
	}
	I[V+"Bytes"] = func(x *Exec, c *frame, fn *ssa.Function, a []Value) Value {
		return asReflVal(a[0]).get()
	}
	I[V+"Set"] = func(x *Exec, c *frame, fn *ssa.Function, a []Value) Value {
		r, s := asReflVal(a[0]), asReflVal(a[1])
		r.mustSettable("Set")
		v := s.get()
		if _, dstIface := r.t.Underlying().(*types.Interface); dstIface {
			if _, srcIface := s.t.Underlying().(*types.Interface); !srcIface {
				v = Iface{t: s.t, v: v}
			}
		} else if !types.AssignableTo(s.t, r.t) {
			panic(&goPanic{msg: "reflect.Set: value of type " + typeStringOf(s.t) + " is not assignable to type " + typeStringOf(r.t), runtime: true})
		}
		r.addr.store(v)
		return nil
	}
	I[V+"SetBool"] = func(x *Exec, c *frame, fn *ssa.Function, a []Value) Value {
		r := asReflVal(a[0])
		r.mustSettable("SetBool")
		r.addr.store(a[1])
		return nil
	}
	I[V+"SetInt"] = func(x *Exec, c *frame, fn *ssa.Function, a []Value) Value {
		r := asReflVal(a[0])
		r.mustSettable("SetInt")
		w, _, ok := isWidthType(r.t)
		if !ok {
			panic(&goPanic{msg: "reflect: call of reflect.Value.SetInt on " + typeStringOf(r.t) + " Value", runtime: true})
		}
		r.addr.store(mkExtract(a[1].(*Term), 0, w))
		return nil
	}
	I[V+"SetUint"] = I[V+"SetInt"]
	I[V+"OverflowInt"] = func(x *Exec, c *frame, fn *ssa.Function, a []Value) Value {
		r := asReflVal(a[0])
		w, _, ok := isWidthType(r.t)
		if !ok {
			panic(&goPanic{msg: "reflect: call of reflect.Value.OverflowInt on " + typeStringOf(r.t) + " Value", runtime: true})
		}
		t := a[1].(*Term)
		return mkNot(mkEq(mkSExt(mkExtract(t, 0, w), 64), t))
	}
	I[V+"OverflowUint"] = func(x *Exec, c *frame, fn *ssa.Function, a []Value) Value {
		r := asReflVal(a[0])
		w, _, ok := isWidthType(r.t)
		if !ok {
			panic(&goPanic{msg: "reflect: call of reflect.Value.OverflowUint on " + typeStringOf(r.t) + " Value", runtime: true})
		}
		t := a[1].(*Term)
		return mkNot(mkEq(mkZExt(mkExtract(t, 0, w), 64), t))
	}
	I[V+"SetString"] = func(x *Exec, c *frame, fn *ssa.Function, a []Value) Value {
		r := asReflVal(a[0])
		r.mustSettable("SetString")
		r.addr.store(a[1])
		return nil
	}
	I[V+"SetBytes"] = I[V+"SetString"]
	I["(reflect.StructTag).Get"] = func(x *Exec, c *frame, fn *ssa.Function, a []Value) Value {
		tag, ok1 := a[0].(*Str).concrete()
		key, ok2 := a[1].(*Str).concrete()
		if !ok1 || !ok2 {
			panic(unsupported{"symbolic struct tag"})
		}
		return strConst(reflect.StructTag(tag).Get(key))
	}
	I["(reflect.StructTag).Lookup"] = func(x *Exec, c *frame, fn *ssa.Function, a []Value) Value {
		tag, ok1 := a[0].(*Str).concrete()
		key, ok2 := a[1].(*Str).concrete()
		if !ok1 || !ok2 {
			panic(unsupported{"symbolic struct tag"})
		}
		v, ok := reflect.StructTag(tag).Lookup(key)
		return Tuple{strConst(v), mkBool(ok)}
	}
	I["(reflect.StructField).IsExported"] = func(x *Exec, c *frame, fn *ssa.Function, a []Value) Value {
		// PkgPath is the second field of reflect.StructField
		s, _ := a[0].(*Agg).e[1].(*Str).concrete()
		return mkBool(s == "")
	}
	I["(reflect.Kind).String"] = func(x *Exec, c *frame, fn *ssa.Function, a []Value) Value {
		k, _ := concreteInt(a[0])
		return strConst(reflect.Kind(k).String())
	}
}
